/-
  C23 — determinism.  Model of the parts of memvid through which a source of run-to-run variation can
  reach the `.mv2` file or an observation (src/memvid/mutation.rs: put_internal, update_frame, delete_frame,
  commit_from_records, apply_records, rebuild_indexes, update_embedded_lex_snapshot;
  src/search/tantivy/engine.rs: create, from_parts, snapshot_segments; src/types/memories_track.rs:
  SlotIndex, EnrichmentManifest, record_enrichment, serialize; src/types/memory_card.rs: build;
  src/lib.rs: Drop for Memvid).

  Every such source is an explicit ORACLE argument (`Oracles`): the wall clock, the random generator
  (Tantivy segment ids), the per-process hash seed (iteration order of serialised `HashMap`s), temporary
  names and scheduling decisions (which indexing worker takes a document).  The byte encoders (bincode,
  serde_json, zstd, blake3, Tantivy's file formats) are black boxes: parameters `Enc`.

  Scope (declared; histories outside it are not generated): payloads are raw text/bytes (no document
  reader, so no extraction deadline), no embeddings, no vacuum/doctor/tickets, the WAL neither wraps nor
  grows, the auto-checkpoint threshold is not reached, default cargo features (`lex` on).
-/
import MvModel.Bytes
import MvModel.Gen.C23
namespace Mv.Det

/-! ## Oracles: every source of nondeterminism, one stream per kind -/

structure Oracles where
  /-- k-th read of the wall clock, seconds (`SystemTime::now`) -/
  clock : Nat → Int
  /-- k-th random identifier (Tantivy `SegmentId::generate_random`, uuid v4) -/
  uuid : Nat → Nat
  /-- `RandomState` keys of the process: fixes the iteration order of every `HashMap` -/
  hashSeed : Nat
  /-- k-th temporary name (`TempDir::new`, staging file of the atomic commit) -/
  tmp : Nat → Nat
  /-- k-th scheduling decision (which indexing worker thread takes the next document) -/
  sched : Nat → Nat

/-! ## Inventory tie: every call site found in /repo/src is assigned to an oracle -/

/-- where the value read at a site can flow -/
inductive Reach
  | file        -- reaches bytes of the .mv2 file
  | telemetry   -- only durations/log lines/statistics structs, never the file or an observation
  | control     -- retry/timeout control only (lock acquisition back-off)
  | featureOff  -- code not compiled with the default features / not reachable from the modelled API
  | outOfScope  -- reachable, but only through operations outside the declared scope of the model
  | internal    -- the value names a scratch location of the process and is never written or observed
  deriving DecidableEq, Repr

structure Decl where
  file : String
  item : String
  kind : String
  count : Nat
  oracle : String
  reach : Reach
  deriving DecidableEq, Repr

/-- the model's declaration for every inventoried site (file, enclosing item, kind, number of occurrences) -/
def declared : List Decl := [
  ⟨"src/api_embed.rs", "fn new", "env", 1, "env", .featureOff⟩,
  ⟨"src/clip.rs", "fn default", "env", 3, "env", .featureOff⟩,
  ⟨"src/clip.rs", "fn encode_image", "mono", 1, "mono", .featureOff⟩,
  ⟨"src/clip.rs", "fn encode_text", "mono", 1, "mono", .featureOff⟩,
  ⟨"src/clip.rs", "fn new", "mono", 1, "mono", .featureOff⟩,
  ⟨"src/encryption/capsule_stream.rs", "fn lock_file_stream", "rng", 2, "uuid", .featureOff⟩,
  ⟨"src/encryption/crypto.rs", "<top>", "env", 1, "env", .featureOff⟩,
  ⟨"src/enrichment_worker.rs", "fn process_task", "mono", 1, "mono", .telemetry⟩,
  ⟨"src/extract.rs", "fn pdf_text_extract_oxide", "tmp", 1, "tmp", .featureOff⟩,
  ⟨"src/extract_budgeted.rs", "fn extract_ooxml_budgeted", "mono", 1, "mono", .outOfScope⟩,
  ⟨"src/extract_budgeted.rs", "fn extract_pdf_budgeted", "mono", 1, "mono", .outOfScope⟩,
  ⟨"src/extract_budgeted.rs", "fn extract_pdf_budgeted", "tmp", 1, "tmp", .featureOff⟩,
  ⟨"src/extract_budgeted.rs", "fn extract_pdf_budgeted_lopdf", "mono", 2, "mono", .outOfScope⟩,
  ⟨"src/extract_budgeted.rs", "fn extract_text_budgeted", "mono", 1, "mono", .telemetry⟩,
  ⟨"src/lockfile.rs", "fn acquire", "mono", 1, "mono", .control⟩,
  ⟨"src/memvid/ask.rs", "fn ask", "mono", 2, "mono", .telemetry⟩,
  ⟨"src/memvid/audit.rs", "fn audit", "clock", 1, "clock", .outOfScope⟩,
  ⟨"src/memvid/doctor.rs", "fn compute", "mono", 1, "mono", .telemetry⟩,
  ⟨"src/memvid/doctor.rs", "fn run", "mono", 2, "mono", .telemetry⟩,
  ⟨"src/memvid/enrichment.rs", "fn process_enrichment_task", "mono", 1, "mono", .telemetry⟩,
  ⟨"src/memvid/enrichment.rs", "fn start_enrichment_worker", "thread", 1, "sched", .outOfScope⟩,
  ⟨"src/memvid/enrichment.rs", "fn start_enrichment_worker_with_embeddings", "thread", 1, "sched", .outOfScope⟩,
  ⟨"src/memvid/mutation.rs", "fn delete_frame", "clock", 1, "clock", .file⟩,
  ⟨"src/memvid/mutation.rs", "fn extract_via_registry", "mono", 2, "mono", .telemetry⟩,
  ⟨"src/memvid/mutation.rs", "fn put_internal", "clock", 1, "clock", .outOfScope⟩,
  ⟨"src/memvid/search/api.rs", "fn materialize_tantivy_segments", "tmp", 1, "tmp", .internal⟩,
  ⟨"src/memvid/search/api.rs", "fn max_index_payload", "env", 1, "env", .outOfScope⟩,
  ⟨"src/memvid/search/api.rs", "fn search_adaptive_acl", "mono", 1, "mono", .telemetry⟩,
  ⟨"src/memvid/search/api.rs", "fn vec_search_with_embedding_acl", "mono", 1, "mono", .telemetry⟩,
  ⟨"src/memvid/search/mod.rs", "fn search", "mono", 2, "mono", .telemetry⟩,
  ⟨"src/memvid/search/time_filter.rs", "fn resolve_phrase_bounds", "clock", 1, "clock", .outOfScope⟩,
  ⟨"src/memvid/sketch.rs", "fn find_sketch_candidates_with_stats", "mono", 1, "mono", .telemetry⟩,
  ⟨"src/memvid/ticket.rs", "fn apply_signed_ticket", "env", 1, "env", .outOfScope⟩,
  ⟨"src/memvid/workers.rs", "fn build_lex_artifact", "mono", 1, "mono", .featureOff⟩,
  ⟨"src/memvid/workers.rs", "fn build_time_artifact", "mono", 1, "mono", .featureOff⟩,
  ⟨"src/memvid/workers.rs", "fn build_vec_artifact", "mono", 1, "mono", .featureOff⟩,
  ⟨"src/memvid/workers.rs", "fn execute", "thread", 1, "sched", .featureOff⟩,
  ⟨"src/models.rs", "fn run_onnx_smoke_test", "mono", 1, "mono", .featureOff⟩,
  ⟨"src/reader/pdf.rs", "fn extract_with_pdfium", "mono", 1, "mono", .featureOff⟩,
  ⟨"src/registry.rs", "fn current_timestamp", "clock", 1, "clock", .outOfScope⟩,
  ⟨"src/registry.rs", "fn is_stale", "clock", 1, "clock", .outOfScope⟩,
  ⟨"src/registry.rs", "fn new", "env", 1, "env", .outOfScope⟩,
  ⟨"src/registry.rs", "fn registry_candidates", "env", 1, "env", .outOfScope⟩,
  ⟨"src/registry.rs", "fn registry_candidates", "tmp", 1, "tmp", .outOfScope⟩,
  ⟨"src/replay/engine.rs", "fn replay_session_from", "mono", 2, "mono", .featureOff⟩,
  ⟨"src/replay/types.rs", "fn duration_secs", "clock", 1, "clock", .featureOff⟩,
  ⟨"src/replay/types.rs", "fn end", "clock", 1, "clock", .featureOff⟩,
  ⟨"src/replay/types.rs", "fn new", "clock", 3, "clock", .featureOff⟩,
  ⟨"src/replay/types.rs", "fn new", "rng", 1, "uuid", .featureOff⟩,
  ⟨"src/replay/types.rs", "struct ReplaySession.metadata", "hashser", 1, "hashSeed", .featureOff⟩,
  ⟨"src/search/tantivy/engine.rs", "fn create", "tmp", 1, "tmp", .internal⟩,
  ⟨"src/search/tantivy/engine.rs", "fn from_parts", "thread", 1, "sched", .file⟩,
  ⟨"src/table/pdf_extractor.rs", "fn extract_tables_from_pdf", "mono", 1, "mono", .outOfScope⟩,
  ⟨"src/text_embed.rs", "fn encode_text", "mono", 1, "mono", .featureOff⟩,
  ⟨"src/text_embed.rs", "fn new", "mono", 1, "mono", .featureOff⟩,
  ⟨"src/triplet/extractor.rs", "fn extract", "mono", 1, "mono", .telemetry⟩,
  ⟨"src/types/graph_query.rs", "struct GraphMatchResult.bindings", "hashser", 1, "hashSeed", .outOfScope⟩,
  ⟨"src/types/logic_mesh.rs", "struct LogicMeshStats.entity_kinds", "hashser", 1, "hashSeed", .telemetry⟩,
  ⟨"src/types/logic_mesh.rs", "struct LogicMeshStats.link_types", "hashser", 1, "hashSeed", .telemetry⟩,
  ⟨"src/types/manifest.rs", "fn push", "clock", 1, "clock", .outOfScope⟩,
  ⟨"src/types/manifest.rs", "fn remove", "clock", 1, "clock", .outOfScope⟩,
  ⟨"src/types/memories_track.rs", "fn record_enrichment", "clock", 1, "clock", .file⟩,
  ⟨"src/types/memories_track.rs", "struct EnrichmentManifest.frames", "hashser", 1, "hashSeed", .file⟩,
  ⟨"src/types/memories_track.rs", "struct MemoriesStats.cards_by_kind", "hashser", 1, "hashSeed", .telemetry⟩,
  ⟨"src/types/memories_track.rs", "struct SlotIndex.entries", "hashser", 1, "hashSeed", .file⟩,
  ⟨"src/types/memory_card.rs", "fn build", "clock", 1, "clock", .file⟩,
  ⟨"src/types/schema.rs", "struct SchemaRegistry.schemas", "hashser", 1, "hashSeed", .telemetry⟩,
  ⟨"src/whisper.rs", "fn default", "env", 3, "env", .featureOff⟩,
  -- sources inside dependencies (no call site in src/): declared so that the oracle list is complete
  ⟨"<crate tantivy>", "SegmentId::generate_random", "rng", 1, "uuid", .file⟩,
  ⟨"<crate tantivy>", "IndexWriter worker threads / merge policy", "thread", 1, "sched", .file⟩,
  ⟨"<crate std>", "RandomState::new", "rng", 1, "hashSeed", .file⟩,
  ⟨"<crate atomic-write-file>", "staging file name", "tmp", 1, "tmp", .internal⟩
]

/-- the oracle (or the reason for having none) the model uses for a kind of site -/
def oracleFor (kind : String) : List String :=
  if kind = "clock" then ["clock"] else if kind = "mono" then ["mono"] else if kind = "rng" then ["uuid", "hashSeed"]
  else if kind = "tmp" then ["tmp"] else if kind = "thread" then ["sched"] else if kind = "hashser" then ["hashSeed"]
  else if kind = "env" then ["env"] else []

def Decl.covers (d : Decl) (s : Mv.Gen.C23.Site) : Bool :=
  d.file == s.file && d.item == s.item && d.kind == s.kind && d.count == s.count && (oracleFor s.kind).contains d.oracle

/-- site-by-site coverage of the generated inventory by the declaration list -/
def inventoryCovered : Bool := Mv.Gen.C23.sites.all fun s => declared.any fun d => d.covers s

/-- `mono` (durations: telemetry, deadlines of the document readers) and `env` (model/registry paths, the
    index-payload cap) are not oracles of the model: no declared site of these kinds reaches the file
    from inside the model's scope -/
def unmodelledKindsHarmless : Bool :=
  declared.all fun d => (d.oracle == "mono" || d.oracle == "env") → d.reach != Reach.file

/-! ## State -/

inductive Status | active | superseded | deleted
  deriving DecidableEq, Repr

structure Frame where
  ts : Int
  payload : Bytes
  uri : Nat
  status : Status
  supersedes : Option Nat
  supersededBy : Option Nat
  deriving DecidableEq, Repr

/-- a memory card; `auto` = built by the triplet extractor (`MemoryCardBuilder::build` reads the clock),
    otherwise passed in by the caller with an explicit `created_at` -/
structure Card where
  slotKey : Nat
  value : Nat
  source : Nat
  auto : Bool
  createdAt : Int
  deriving DecidableEq, Repr

/-- a WAL record (`WalEntry`) -/
inductive Rec
  | insert (ts : Int) (payload : Bytes) (uri : Nat) (supersedes : Option Nat)
  | tombstone (target : Nat) (ts : Int)
  | lexBatch (names : List Nat)
  deriving DecidableEq, Repr

structure Doc where
  id : Nat
  ts : Int
  text : Bytes
  deriving DecidableEq, Repr

/-- one Tantivy segment: its random name and the documents it holds -/
structure Seg where
  name : Nat
  docs : List Doc
  deriving DecidableEq, Repr

structure St where
  /-- lexical index enabled (`lex` cargo feature / `lex_enabled`); the default build has it on -/
  lex : Bool := true
  frames : List Frame := []
  pending : List Rec := []
  /-- `pending_frame_inserts`: insert records appended since the last commit -/
  pendingInserts : Nat := 0
  /-- every record physically in the WAL region, append order -/
  wal : List Rec := []
  cards : List Card := []
  /-- `EnrichmentManifest.frames`: (frame key, enriched_at) -/
  enrich : List (Nat × Int) := []
  /-- what the Tantivy engine holds, in the order the documents were added -/
  docs : List Doc := []
  /-- how the engine laid the documents out on disk -/
  segs : List Seg := []
  seq : Nat := 0
  dirty : Bool := false
  tantivyDirty : Bool := false
  /-- a Tantivy snapshot has been embedded in the file at least once -/
  lexWritten : Bool := false
  gen : Nat := 0
  /-- dead bytes of regions written by an earlier commit are still in the file -/
  stale : Bool := false
  workDir : Nat := 0
  kClock : Nat := 0
  kUuid : Nat := 0
  kTmp : Nat := 0
  kSched : Nat := 0
  deriving DecidableEq, Repr

inductive Op
  /-- `put_bytes_with_options` with an explicit timestamp; `triplets` = the (slot key, value) pairs the rule
      based extractor yields for the text ([] when `extract_triplets = false`) -/
  | put (ts : Int) (payload : Bytes) (uri : Nat) (instant : Bool) (triplets : List (Nat × Nat))
  | update (id : Nat) (ts : Option Int) (payload : Option Bytes)
  | delete (id : Nat)
  | card (slotKey value source : Nat) (createdAt : Int)
  | commit
  | reopen
  | search (q : Nat)
  deriving DecidableEq, Repr

inductive Res
  | ok (n : Nat)
  | done
  | err
  | hits (ids : List Nat)
  deriving DecidableEq, Repr

/-- the lexical engine: a black box from the on-disk layout and a query to the ranked frame ids -/
abbrev Engine := List Seg → Nat → List Nat

/-! ## Steps -/

/-- `Memvid::create`; with `lex` the Tantivy engine gets a temporary working directory -/
def create (lex : Bool) (o : Oracles) : St :=
  -- `init_tantivy` on the empty file reports a rebuild, which leaves `tantivy_dirty` set
  if lex then { lex := true, tantivyDirty := true, workDir := o.tmp 0, kTmp := 1 } else { lex := false }

def setStatus (fs : List Frame) (i : Nat) (st : Status) (by_ : Option Nat) : List Frame :=
  match fs[i]? with
  | some f => fs.set i { f with status := st, supersededBy := by_ }
  | none => fs

/-- `apply_records` for one record (frame id of an insert = current number of frames) -/
def applyRec (fs : List Frame) : Rec → List Frame
  | .insert ts p u sup =>
      let fs1 := match sup with
        | some old => setStatus fs old .superseded (some fs.length)
        | none => fs
      fs1 ++ [{ ts := ts, payload := p, uri := u, status := .active, supersedes := sup, supersededBy := none }]
  | .tombstone t _ => setStatus fs t .deleted none
  | .lexBatch _ => fs

def applyRecs (fs : List Frame) (rs : List Rec) : List Frame := rs.foldl applyRec fs

def docOf (i : Nat) (f : Frame) : Doc := { id := i, ts := f.ts, text := f.payload }

def activeDocsFrom (i : Nat) : List Frame → List Doc
  | [] => []
  | f :: fs => if f.status = .active then docOf i f :: activeDocsFrom (i+1) fs else activeDocsFrom (i+1) fs

/-- the documents a rebuilt engine holds: every active frame -/
def activeDocs (fs : List Frame) : List Doc := activeDocsFrom 0 fs

/-- scheduling decides which of two indexing workers takes each document -/
def splitDocs (o : Oracles) : Nat → List Doc → List Doc × List Doc
  | _, [] => ([], [])
  | k, d :: ds =>
      let r := splitDocs o (k+1) ds
      if o.sched k % 2 = 0 then (d :: r.1, r.2) else (r.1, d :: r.2)

/-- every non-empty worker batch becomes a segment named by a fresh random id -/
def mkSegs (o : Oracles) (ku : Nat) (ab : List Doc × List Doc) : List Seg :=
  (if ab.1.isEmpty then [] else [{ name := o.uuid ku, docs := ab.1 }]) ++
  (if ab.2.isEmpty then [] else [{ name := o.uuid (ku+1), docs := ab.2 }])

def layout (o : Oracles) (ku ks : Nat) (ds : List Doc) : List Seg := mkSegs o ku (splitDocs o ks ds)

def flat (segs : List Seg) : List Doc := segs.flatMap (·.docs)

/-- `commit_from_records` (also run by `Drop` when dirty) -/
def commit (o : Oracles) (s : St) : St :=
  if s.pending.isEmpty && !s.dirty && !s.tantivyDirty then s
  else
    let frames' := applyRecs s.frames s.pending
    -- regions written by an EARLIER commit die when this commit rewrites the index area
    let staleNow := s.stale || (decide (0 < s.gen) && (!s.docs.isEmpty || !s.cards.isEmpty))
    if !s.lex then
      { s with frames := frames', pending := [], pendingInserts := 0, dirty := false, gen := s.gen + 1, stale := staleNow }
    else if !s.pending.isEmpty then
      -- rebuild_indexes: the engine ends up holding exactly the active frames, in a layout chosen by
      -- the scheduler, under fresh random names; a Lex batch naming the files is appended to the WAL
      let ds := activeDocs frames'
      let segs' := layout o s.kUuid s.kSched ds
      let b := Rec.lexBatch (segs'.map (·.name))
      { s with frames := frames', pending := [], pendingInserts := 0, wal := s.wal ++ [b], docs := ds, segs := segs', seq := s.seq + 1,
               dirty := false, tantivyDirty := false, lexWritten := true, gen := s.gen + 1, stale := staleNow,
               workDir := if s.tantivyDirty then o.tmp s.kTmp else s.workDir,
               kTmp := if s.tantivyDirty then s.kTmp + 1 else s.kTmp,
               kUuid := s.kUuid + 2, kSched := s.kSched + ds.length }
    else if s.tantivyDirty then
      let b := Rec.lexBatch (s.segs.map (·.name))
      { s with wal := s.wal ++ [b], seq := s.seq + 1, dirty := false, tantivyDirty := false, lexWritten := true, gen := s.gen + 1, stale := staleNow }
    else
      { s with dirty := false, gen := s.gen + 1, stale := staleNow }

/-- `Drop for Memvid`: commits only when `dirty` -/
def dropCommit (o : Oracles) (s : St) : St := if s.dirty then commit o s else s

/-- `Memvid::open` on the file a dropped handle left: the embedded Tantivy files are materialised in a new temporary
    directory and trusted; a file that never had a snapshot embedded makes `init_tantivy` report a rebuild, and
    `recover_wal` then flushes the (empty) index at once — one more Lex batch in the WAL -/
def openFile (o : Oracles) (s : St) : St :=
  if !s.lex then s else
    let s2 := { s with workDir := o.tmp s.kTmp, kTmp := s.kTmp + 1, tantivyDirty := false }
    if s.lexWritten then s2
    else { s2 with wal := s.wal ++ [Rec.lexBatch (s.segs.map (·.name))], seq := s.seq + 1, lexWritten := true }

/-- cards the extractor builds: one clock read per card -/
def autoCards (o : Oracles) (k : Nat) (source : Nat) : List (Nat × Nat) → List Card
  | [] => []
  | (sk, v) :: rest => { slotKey := sk, value := v, source := source, auto := true, createdAt := o.clock k } :: autoCards o (k+1) source rest

def step (E : Engine) (o : Oracles) (s : St) : Op → St × Res
  | .put ts p u instant trip =>
      let seq' := s.seq + 1
      -- `next_frame_id()` before the append: the id the document receives when its record is applied
      let fid := s.frames.length + s.pendingInserts
      let r := Rec.insert ts p u none
      let s1 := { s with pending := s.pending ++ [r], pendingInserts := s.pendingInserts + 1, wal := s.wal ++ [r], seq := seq', dirty := true }
      -- instant index: the document is added to the live engine under the frame id it will receive
      let s2 := if instant && s.lex then
          { s1 with docs := s1.docs ++ [{ id := fid, ts := ts, text := p }],
                    segs := s1.segs ++ [{ name := o.uuid s1.kUuid, docs := [{ id := fid, ts := ts, text := p }] }],
                    kUuid := s1.kUuid + 1, tantivyDirty := true }
        else s1
      let s3 := if trip.isEmpty then s2 else
          { s2 with cards := s2.cards ++ autoCards o s2.kClock fid trip,
                    enrich := s2.enrich ++ [(fid, o.clock (s2.kClock + trip.length))],
                    kClock := s2.kClock + trip.length + 1 }
      (s3, .ok seq')
  | .update id ts p =>
      match s.frames[id]? with
      | none => (s, .err)
      | some f =>
        if f.status ≠ .active then (s, .err) else
          let seq' := s.seq + 1
          let r := Rec.insert (ts.getD f.ts) (p.getD f.payload) f.uri (some id)
          ({ s with pending := s.pending ++ [r], pendingInserts := s.pendingInserts + 1, wal := s.wal ++ [r], seq := seq', dirty := true }, .ok seq')
  | .delete id =>
      match s.frames[id]? with
      | none => (s, .err)
      | some f =>
        if f.status ≠ .active then (s, .err) else
          let seq' := s.seq + 1
          let r := Rec.tombstone id (o.clock s.kClock)
          ({ s with pending := s.pending ++ [r], wal := s.wal ++ [r], seq := seq', dirty := true, kClock := s.kClock + 1 }, .ok seq')
  | .card sk v src created =>
      ({ s with cards := s.cards ++ [{ slotKey := sk, value := v, source := src, auto := false, createdAt := created }], dirty := true },
       .ok s.cards.length)
  | .commit => (commit o s, .done)
  | .reopen => (openFile o (dropCommit o s), .done)
  | .search q => (s, .hits (E s.segs q))

def runFrom (E : Engine) (o : Oracles) (s : St) : List Op → St × List Res
  | [] => (s, [])
  | op :: ops =>
      let r := step E o s op
      let rest := runFrom E o r.1 ops
      (rest.1, r.2 :: rest.2)

/-- the live handle after the calls -/
def run (E : Engine) (lex : Bool) (o : Oracles) (h : List Op) : St × List Res := runFrom E o (create lex o) h

/-- the state of the file the calls leave: the handle is dropped (`Drop` commits when dirty) -/
def final (E : Engine) (lex : Bool) (o : Oracles) (h : List Op) : St := dropCommit o (run E lex o h).1

/-! ## Logical observation -/

def leTsId (a b : Int × Nat) : Bool := a.1 < b.1 || (a.1 == b.1 && a.2 ≤ b.2)

def insertEntry (x : Int × Nat) : List (Int × Nat) → List (Int × Nat)
  | [] => [x]
  | y :: ys => if leTsId x y then x :: y :: ys else y :: insertEntry x ys

/-- the time index is written sorted by (timestamp, frame id) -/
def sortEntries : List (Int × Nat) → List (Int × Nat)
  | [] => []
  | x :: xs => insertEntry x (sortEntries xs)

def activeEntriesFrom (i : Nat) : List Frame → List (Int × Nat)
  | [] => []
  | f :: fs => if f.status = .active then (f.ts, i) :: activeEntriesFrom (i+1) fs else activeEntriesFrom (i+1) fs

/-- `build_timeline`: the time index (sorted by timestamp, then frame id) restricted to active frames -/
def timeline (fs : List Frame) : List Nat := (sortEntries (activeEntriesFrom 0 fs)).map (·.2)

structure Obs where
  frames : List Frame
  timeline : List Nat
  searches : List (List Nat)
  /-- cards without the `created_at` of extractor-built cards -/
  cards : List Card
  deriving DecidableEq, Repr

def Card.low (c : Card) : Card := if c.auto then { c with createdAt := 0 } else c

def observe (E : Engine) (qs : List Nat) (s : St) : Obs :=
  { frames := s.frames, timeline := timeline s.frames, searches := qs.map (E s.segs), cards := s.cards.map Card.low }

/-- results of the calls, observation of the live handle, observation of the file the calls leave -/
def logical (E : Engine) (qs : List Nat) (lex : Bool) (o : Oracles) (h : List Op) : List Res × Obs × Obs :=
  ((run E lex o h).2, observe E qs (run E lex o h).1, observe E qs (final E lex o h))

/-! ## File image -/

inductive Kind | header | wal | payload | time | lex | memories | sketch | toc | footer | gap
  deriving DecidableEq, Repr

/-- black-box encoders (bincode, serde_json + zstd, blake3, Tantivy file formats, HashMap iteration) -/
structure Enc where
  H : Bytes → Bytes
  header : Nat → Nat → Bytes → Bytes
  walRegion : List Rec → Bytes
  timeIdx : List (Int × Nat) → Bytes
  /-- files of one segment: name and documents -/
  segFiles : Nat → List Doc → Bytes
  /-- meta.json / .managed.json: the list of segment names -/
  lexMeta : List Nat → Bytes
  /-- iteration order of a `HashMap` with the given (distinct) keys under the given hash seed -/
  hashOrder : Nat → List Nat → List Nat
  memories : List Card → List Nat → List (Nat × Int) → List Nat → Bytes
  sketch : List Frame → Bytes
  toc : List Frame → List Nat → Bytes → Bytes → Bytes → Bytes → Nat → Nat → Bytes
  footer : Bytes → Nat → Bytes

def insertSeg (x : Seg) : List Seg → List Seg
  | [] => [x]
  | y :: ys => if x.name ≤ y.name then x :: y :: ys else y :: insertSeg x ys

/-- `snapshot_segments` sorts the file names -/
def sortSegs : List Seg → List Seg
  | [] => []
  | x :: xs => insertSeg x (sortSegs xs)

def ownPayload (f : Frame) : Bytes := f.payload

def payloadRegion (fs : List Frame) : Bytes := fs.flatMap ownPayload

def lexRegion (X : Enc) (lex : Bool) (segs : List Seg) : Bytes :=
  if !lex then [] else
  X.lexMeta ((sortSegs segs).map (·.name)) ++ (sortSegs segs).flatMap (fun g => X.segFiles g.name g.docs)

def dedup : List Nat → List Nat
  | [] => []
  | x :: xs => if xs.contains x then dedup xs else x :: dedup xs

def slotKeys (cs : List Card) : List Nat := dedup (cs.map (·.slotKey))

def enrichKeys (es : List (Nat × Int)) : List Nat := dedup (es.map (·.1))

def memoriesRegion (X : Enc) (o : Oracles) (s : St) : Bytes :=
  if s.cards.isEmpty then [] else
    X.memories s.cards (X.hashOrder o.hashSeed (slotKeys s.cards)) s.enrich (X.hashOrder o.hashSeed (enrichKeys s.enrich))

def timeRegion (X : Enc) (s : St) : Bytes := if s.frames.isEmpty then [] else X.timeIdx (sortEntries (activeEntriesFrom 0 s.frames))

def sketchRegion (X : Enc) (s : St) : Bytes := if s.frames.isEmpty || !s.lex then [] else X.sketch s.frames

def tocRegion (X : Enc) (o : Oracles) (s : St) : Bytes :=
  X.toc s.frames ((sortSegs s.segs).map (·.name)) (timeRegion X s) (lexRegion X (s.lex && s.lexWritten) s.segs) (memoriesRegion X o s) (sketchRegion X s) s.gen s.seq

def region (X : Enc) (o : Oracles) (s : St) : Kind → Bytes
  | .header => X.header s.seq s.gen (X.H (tocRegion X o s))
  | .wal => X.walRegion s.wal
  | .payload => payloadRegion s.frames
  | .time => timeRegion X s
  | .lex => lexRegion X (s.lex && s.lexWritten) s.segs
  | .memories => memoriesRegion X o s
  | .sketch => sketchRegion X s
  | .toc => tocRegion X o s
  | .footer => X.footer (X.H (tocRegion X o s)) s.gen
  | .gap => []

/-- regions in file order -/
def fileOrder : List Kind := [.header, .wal, .payload, .time, .lex, .memories, .sketch, .toc, .footer]

def image (X : Enc) (o : Oracles) (s : St) : List (Kind × Bytes) := fileOrder.map fun k => (k, region X o s k)

def fileBytesOf (X : Enc) (o : Oracles) (s : St) : Bytes := fileOrder.flatMap (region X o s)

/-- bytes of the file the calls leave -/
def fileBytes (X : Enc) (E : Engine) (lex : Bool) (o : Oracles) (h : List Op) : Bytes := fileBytesOf X o (final E lex o h)

/-- regions that exist (non-empty) in the file -/
def present (s : St) : List Kind :=
  [.header, .wal] ++ (if (payloadRegion s.frames).isEmpty then [] else [.payload]) ++ (if s.frames.isEmpty then [] else [.time]) ++ (if s.lex && s.lexWritten then [.lex] else [])
  ++ (if s.cards.isEmpty then [] else [.memories]) ++ (if s.frames.isEmpty || !s.lex then [] else [.sketch]) ++ [.toc, .footer]

/-! ## Which regions may depend on an oracle -/

def Rec.clean : Rec → Bool
  | .insert .. => true
  | .tombstone .. => false
  | .lexBatch ns => ns.isEmpty

def walTainted (s : St) : Bool := !(s.wal.all Rec.clean)
def lexTainted (s : St) : Bool := !s.docs.isEmpty
def memTainted (s : St) : Bool :=
  !s.cards.isEmpty && (s.cards.any (·.auto) || !s.enrich.isEmpty || decide (1 < (slotKeys s.cards).length))
def tocTainted (s : St) : Bool := lexTainted s || memTainted s

/-- the regions whose bytes may differ between two executions of the same history -/
def mayDiffer (s : St) : List Kind :=
  (if walTainted s then [.wal] else []) ++ (if lexTainted s then [.lex] else []) ++ (if memTainted s then [.memories] else [])
  ++ (if tocTainted s then [.toc, .footer, .header] else []) ++ (if s.stale then [.gap] else [])

/-- which oracle is the cause, per region (for the classification of findings) -/
def causes (s : St) : List String :=
  (if s.wal.any (fun r => match r with | .tombstone .. => true | _ => false) then ["clock:wal-tombstone-timestamp"] else [])
  ++ (if s.cards.any (·.auto) then ["clock:card-created-at"] else [])
  ++ (if lexTainted s then ["uuid:tantivy-segment-names", "sched:tantivy-segment-layout"] else [])
  ++ (if s.wal.any (fun r => match r with | .lexBatch ns => !ns.isEmpty | _ => false) then ["uuid:wal-lex-batch-names"] else [])
  ++ (if !s.cards.isEmpty && decide (1 < (slotKeys s.cards).length) then ["hashSeed:memories-slot-index-order"] else [])
  ++ (if decide (1 < (enrichKeys s.enrich).length) then ["hashSeed:memories-enrichment-manifest-order"] else [])

/-! ## concrete instances (used by the model driver and by the witness theorems) -/

/-- a concrete engine whose answer is a function of the indexed documents: number of documents containing the byte -/
def E0 : Engine := fun segs q => [(flat segs).countP (fun d => d.text.contains (UInt8.ofNat q))]

def n8 (n : Nat) : UInt8 := UInt8.ofNat n

def encRec : Rec → Bytes
  | .insert ts p u _ => 1 :: n8 ts.toNat :: n8 u :: p
  | .tombstone t ts => [2, n8 t, n8 ts.toNat]
  | .lexBatch ns => 3 :: ns.map n8

/-- concrete small encoders (injective enough to show the oracle values inside the file) -/
def X0 : Enc where
  H := fun b => b.take 4
  header := fun s g c => n8 s :: n8 g :: c
  walRegion := fun rs => rs.flatMap encRec
  timeIdx := fun es => es.flatMap fun e => [n8 e.1.toNat, n8 e.2]
  segFiles := fun name ds => n8 name :: ds.flatMap (·.text)
  lexMeta := fun names => names.map n8
  hashOrder := fun seed ks => if seed % 2 = 0 then ks else ks.reverse
  memories := fun cs order es eorder =>
    order.map n8 ++ cs.flatMap (fun c => [n8 c.slotKey, n8 c.value, n8 c.createdAt.toNat]) ++ eorder.map n8 ++ es.flatMap (fun e => [n8 e.1, n8 e.2.toNat])
  sketch := fun fs => [n8 fs.length]
  toc := fun fs names t l m k g s => n8 fs.length :: names.map n8 ++ t.take 2 ++ l.take 4 ++ m.take 4 ++ k.take 2 ++ [n8 g, n8 s]
  footer := fun h g => h ++ [n8 g]

def zeroOracles : Oracles := { clock := fun _ => 0, uuid := fun _ => 0, hashSeed := 0, tmp := fun _ => 0, sched := fun _ => 0 }


end Mv.Det
