/-
  C39 — Sketch term filter has no false negatives; sketch track round-trips.
  Property theorems only.  Model: MvModel/Sketch.lean (mirror of /repo/src/types/sketch_track.rs);
  helper lemmas: MvProps/C39Lemmas.lean.

  Clause 1 (no false negatives) is PROVED for the code as it is.
  Clause 2 (a written track reads back identical) is FALSE for the code as it is: `C39_track_full`
  is refuted by `C39_track_counterexample`; what a write+read really does is characterised exactly
  by `C39_track_normal_form`, and `C39_track_partial` / `C39_track_roundtrip_iff` give the precise
  class of tracks that do round-trip.
-/
import MvProps.C39Lemmas
namespace Mv.Sketch
open Mv.Gen.C39

/-! ## Clause 1 — no false negatives -/

/-- **C39_bloom_no_false_negative** — `build_term_filter` on any hash list and any non-zero size does
    not panic, returns `size` bytes, and `term_filter_maybe_contains` answers `true` for every hash
    that was inserted. -/
theorem C39_bloom_no_false_negative (hs : List Nat) (size : Nat) (hsz : 0 < size) :
    ∃ f, buildTermFilter hs size = some f ∧ f.length = size ∧ ∀ h ∈ hs, maybeContains f h = some true :=
  bloom_no_fn hs size hsz

example : ∃ f, buildTermFilter [300, 2 ^ 64 - 2, 0] 16 = some f ∧ maybeContains f 300 = some true ∧
    maybeContains f 45 = some false := ⟨_, rfl, by decide, by decide⟩

/-- **C39_filter** — for every token list (whatever tokenizer produced it), every token hash function and
    every weight function: if `generate_sketch` returns an entry, its filter has the variant's size and
    reports every token of the text as possibly present. -/
theorem C39_filter (hash : Bytes → Nat) (wt : Bytes → Nat → Nat) (frameId : Nat) (tokens : List Bytes)
    (v : Variant) (e : Entry) (hg : generateSketch hash wt frameId tokens v = some e) :
    e.termFilter.length = v.filterSize ∧ ∀ t ∈ tokens, maybeContains e.termFilter (hash t) = some true := by
  unfold generateSketch at hg
  split at hg
  · rename_i hemp
    cases hg
    refine ⟨by simp [Entry.new], ?_⟩
    intro t ht
    simp [List.isEmpty_iff] at hemp
    subst hemp; cases ht
  · obtain ⟨f, hb, hlen, hall⟩ := bloom_no_fn ((computeTokenWeights hash wt tokens).map (·.1)) v.filterSize (filterSize_pos v)
    simp only [hb] at hg
    split at hg
    · cases hg
    · cases hg
      exact ⟨hlen, fun t ht => hall _ (hash_mem_weighted hash wt tokens t ht)⟩

/-- **C39_sketch_total** — `generate_sketch` does not panic when `topTermsCount * W` fits a `u32`, `W`
    bounding the weights.  (Without an IDF map `W = 300`; with one, weights reach `i32::MAX` and only
    the Small variant, 2 top terms, is safe — see `C39_sketch_weight_sum_overflow`.) -/
theorem C39_sketch_total (hash : Bytes → Nat) (wt : Bytes → Nat → Nat) (frameId : Nat) (tokens : List Bytes)
    (v : Variant) (W : Nat) (hW : ∀ t c, wt t c ≤ W) (hk : v.topTermsCount * W < 2 ^ 32) :
    ∃ e, generateSketch hash wt frameId tokens v = some e := by
  unfold generateSketch
  split
  · exact ⟨_, rfl⟩
  · obtain ⟨f, hb, _, _⟩ := bloom_no_fn ((computeTokenWeights hash wt tokens).map (·.1)) v.filterSize (filterSize_pos v)
    simp only [hb]
    have hsum : (((computeTokenWeights hash wt tokens).take v.topTermsCount).map (·.2)).sum ≤ v.topTermsCount * W := by
      have hb : ∀ p ∈ (computeTokenWeights hash wt tokens).take v.topTermsCount, p.2 ≤ W := by
        intro p hp
        have := List.mem_of_mem_take hp
        simp only [computeTokenWeights, mem_sortPairs, List.mem_map] at this
        obtain ⟨t, _, rfl⟩ := this
        exact hW _ _
      have hl : ((computeTokenWeights hash wt tokens).take v.topTermsCount).length ≤ v.topTermsCount := by
        simp [List.length_take]; omega
      exact Nat.le_trans (sum_map_le _ _ W hb) (Nat.mul_le_mul_right W hl)
    rw [if_neg (by omega)]
    exact ⟨_, rfl⟩

/-- without an IDF map `generate_sketch` never panics, for every variant -/
theorem C39_sketch_total_no_idf (hash : Bytes → Nat) (frameId : Nat) (tokens : List Bytes) (v : Variant) :
    ∃ e, generateSketch hash wtNoIdf frameId tokens v = some e := by
  apply C39_sketch_total hash wtNoIdf frameId tokens v 300
  · intro t c
    have h1 : WEIGHT_MIN = 1 := by decide
    have h2 : TF_CAP = 3 := by decide
    have h3 : WEIGHT_SCALE = 100 := by decide
    simp only [wtNoIdf, h1, h2, h3]
    omega
  · cases v <;> decide

/-- **C39_filter_ascii** — end to end for ASCII text, with the tokenizer, the weights and the filter all
    inside the model: `generate_sketch(text)` returns an entry and every token the tokenizer produces
    from the text is reported as possibly present, for every token hash function. -/
theorem C39_filter_ascii (hash : Bytes → Nat) (frameId : Nat) (text : Bytes) (v : Variant) :
    ∃ e, generateSketch hash wtNoIdf frameId (tokenizeAscii text) v = some e ∧
      ∀ t ∈ tokenizeAscii text, maybeContains e.termFilter (hash t) = some true := by
  obtain ⟨e, he⟩ := C39_sketch_total_no_idf hash frameId (tokenizeAscii text) v
  exact ⟨e, he, (C39_filter hash wtNoIdf frameId _ v e he).2⟩

/-- non-vacuity: "Hi, hi a CAT!" has tokens `hi, hi, cat` -/
example : tokenizeAscii [72, 105, 44, 32, 104, 105, 32, 97, 32, 67, 65, 84, 33] =
    [[104, 105], [104, 105], [99, 97, 116]] := by decide

/-- with weights near `i32::MAX` (absurd IDF values) the Medium/Large `u32` weight sum overflows: the
    debug build panics (reproduced on the real code; not part of C39's statement) -/
theorem C39_sketch_weight_sum_overflow :
    generateSketch leVal (fun _ _ => 2147483647) 0 [[97, 97], [98, 98], [99, 99]] .medium = none := by
  decide

/-- **C39_overlap** — a query that shares a token with the text passes the term-filter stage of candidate
    search (`term_filter_maybe_overlaps` is true). -/
theorem C39_overlap (hash : Bytes → Nat) (wt : Bytes → Nat → Nat) (frameId : Nat) (doc query : List Bytes)
    (v : Variant) (e : Entry) (qf : Bytes) (t : Bytes)
    (hg : generateSketch hash wt frameId doc v = some e) (hq : queryFilter hash query v = some qf)
    (htd : t ∈ doc) (htq : t ∈ query) : maybeOverlaps e.termFilter qf = true := by
  obtain ⟨hlen, hall⟩ := C39_filter hash wt frameId doc v e hg
  have hd := hall t htd
  have hqne : query.isEmpty = false := by cases query <;> simp_all
  simp only [queryFilter, hqne] at hq
  obtain ⟨f, hb, hlenq, hallq⟩ := bloom_no_fn ((computeTokenWeights hash wtNoIdf query).map (·.1)) v.filterSize (filterSize_pos v)
  rw [hb] at hq
  cases hq
  have hqq := hallq _ (hash_mem_weighted hash wtNoIdf query t htq)
  exact overlaps_of_common hlen hlenq (filterSize_pos v) hd hqq

deriving instance DecidableEq for Except

instance (e : Entry) : Decidable e.InRange := by unfold Entry.InRange; infer_instance
instance (t : Track) : Decidable t.InRange := by unfold Track.InRange; infer_instance

/-! ## Clause 2 — write then read -/

/-- the property as stated: every track (fields within their Rust types, distinct frame ids, as
    `SketchTrack::insert` guarantees) is identical after `write_sketch_track` + `read_sketch_track` -/
def C39_track_full : Prop :=
  ∀ t : Track, t.InRange → (t.entries.map (·.frameId)).Nodup →
    readTrack (writeTrack t) 0 (writeTrack t).length = .ok t

/-- one Small entry, all fields already in stored form, for frame 5 -/
def witnessIds : Track :=
  ⟨.small, [{ frameId := 5, simhash := 0, termFilter := zeros 16, topTerms := [0, 0], termWeightSum := 0,
              flags := 7, lengthHint := 0 }]⟩

/-- **C39_track_counterexample** — the round-trip clause is false for the code as it is: frame ids are not
    stored, the reader renumbers from 0 (frame 5's sketch comes back as frame 0's). -/
theorem C39_track_counterexample : ¬ C39_track_full := by
  intro h
  have := h witnessIds (by decide) (by decide)
  revert this
  decide

/-- what comes back for the witness: the same entry under frame id 0 -/
example : readTrack (writeTrack witnessIds) 0 (writeTrack witnessIds).length =
    .ok ⟨.small, [{ frameId := 0, simhash := 0, termFilter := zeros 16, topTerms := [0, 0], termWeightSum := 0,
                    flags := 7, lengthHint := 0 }]⟩ := by decide

/-- **C39_track_normal_form** — what write+read really does, for every track, anywhere in a file (`pre`
    bytes before, `post` bytes after, any `length` argument covering the track): the reader returns
    exactly `normalize t` — ids renumbered 0..n-1, shapes forced to the stored sizes, and in the Small
    variant weight sum / flags / length hint reset.  In particular it never fails and never panics. -/
theorem C39_track_normal_form (t : Track) (pre post : Bytes) (L : Nat) (hr : t.InRange)
    (hL : (writeTrack t).length ≤ L) :
    readTrack (pre ++ writeTrack t ++ post) pre.length L = .ok (normalize t) :=
  read_write_normal t pre post L hr hL

/-- an entry already has the shape the variant's on-disk entry can hold -/
def Entry.Stored (v : Variant) (e : Entry) : Prop :=
  match v with
  | .small => e.termFilter.length = FS ∧ e.topTerms.length = TS ∧ e.termWeightSum = 0 ∧ e.flags = FLAGS_ALL ∧
      e.lengthHint = 0
  | _ => e.termFilter.length = FM ∧ e.topTerms.length = TM

def CanonFrom (v : Variant) : Nat → List Entry → Prop
  | _, [] => True
  | i, e :: es => (e.frameId = i ∧ e.Stored v) ∧ CanonFrom v (i + 1) es

/-- frame ids are exactly 0..n-1 in insertion order and every entry is in stored shape -/
def Track.Canonical (t : Track) : Prop := CanonFrom t.variant 0 t.entries

theorem normEntry_eq_iff (v : Variant) (i : Nat) (e : Entry) : normEntry v i e = e ↔ (e.frameId = i ∧ e.Stored v) := by
  cases e with
  | mk fid sh tf tt tws fl lh =>
    cases v
    · simp only [normEntry, Entry.Stored, Entry.mk.injEq, padTake_eq_self_iff, smallFilter_eq_self_iff, true_and]
      constructor
      · rintro ⟨h1, h2, h3, h4, h5, h6⟩; exact ⟨h1.symm, h2, h3, h4.symm, h5.symm, h6.symm⟩
      · rintro ⟨h1, h2, h3, h4, h5, h6⟩; exact ⟨h1.symm, h2, h3, h4.symm, h5.symm, h6.symm⟩
    · simp only [normEntry, Entry.Stored, Entry.mk.injEq, padTake_eq_self_iff, true_and, and_true]
      constructor
      · rintro ⟨h1, h2, h3⟩; exact ⟨h1.symm, h2, h3⟩
      · rintro ⟨h1, h2, h3⟩; exact ⟨h1.symm, h2, h3⟩
    · simp only [normEntry, Entry.Stored, Entry.mk.injEq, padTake_eq_self_iff, true_and, and_true]
      constructor
      · rintro ⟨h1, h2, h3⟩; exact ⟨h1.symm, h2, h3⟩
      · rintro ⟨h1, h2, h3⟩; exact ⟨h1.symm, h2, h3⟩

theorem normFrom_eq_iff (v : Variant) (i : Nat) (es : List Entry) : normFrom v i es = es ↔ CanonFrom v i es := by
  induction es generalizing i with
  | nil => simp [normFrom, CanonFrom]
  | cons e es ih => simp only [normFrom, CanonFrom, List.cons.injEq, normEntry_eq_iff, ih]

theorem normalize_eq_iff (t : Track) : normalize t = t ↔ t.Canonical := by
  cases t with
  | mk v es => simp [normalize, Track.Canonical, normFrom_eq_iff]

/-- **C39_track_partial** — the round trip under its true precondition: a track whose frame ids are
    0..n-1 in insertion order and whose entries are in stored shape reads back identical. -/
theorem C39_track_partial (t : Track) (pre post : Bytes) (hr : t.InRange) (hc : t.Canonical) :
    readTrack (pre ++ writeTrack t ++ post) pre.length (writeTrack t).length = .ok t := by
  rw [C39_track_normal_form t pre post _ hr (Nat.le_refl _), (normalize_eq_iff t).mpr hc]

/-- **C39_track_roundtrip_iff** — and that precondition is exact: no other track survives. -/
theorem C39_track_roundtrip_iff (t : Track) (pre post : Bytes) (hr : t.InRange) :
    readTrack (pre ++ writeTrack t ++ post) pre.length (writeTrack t).length = .ok t ↔ t.Canonical := by
  rw [C39_track_normal_form t pre post _ hr (Nat.le_refl _), ← normalize_eq_iff]
  constructor
  · intro h; exact Except.ok.inj h
  · intro h; rw [h]

/-- non-vacuity: a canonical two-entry Medium track (and it does round-trip, by evaluation) -/
def canonMedium : Track :=
  ⟨.medium, [{ frameId := 0, simhash := 2 ^ 64 - 1, termFilter := List.replicate 32 0xFF, topTerms := [1, 2, 3, 2 ^ 32 - 1],
               termWeightSum := 65535, flags := 23, lengthHint := 255 },
             { frameId := 1, simhash := 7, termFilter := zeros 32, topTerms := [0, 0, 0, 0],
               termWeightSum := 0, flags := 0, lengthHint := 0 }]⟩

instance (v : Variant) (e : Entry) : Decidable (e.Stored v) := by unfold Entry.Stored; cases v <;> infer_instance
def decCanonFrom (v : Variant) : (i : Nat) → (es : List Entry) → Decidable (CanonFrom v i es)
  | _, [] => isTrue trivial
  | i, e :: es => by
    have := decCanonFrom v (i + 1) es
    unfold CanonFrom
    infer_instance
instance (v : Variant) (i : Nat) (es : List Entry) : Decidable (CanonFrom v i es) := decCanonFrom v i es
instance (t : Track) : Decidable t.Canonical := by unfold Track.Canonical; infer_instance

example : canonMedium.InRange ∧ canonMedium.Canonical := by decide
set_option maxRecDepth 8000 in
example : readTrack ([9, 9] ++ writeTrack canonMedium ++ [1]) 2 (writeTrack canonMedium).length = .ok canonMedium := by
  decide

/-- filter bytes / top terms an on-disk entry of the variant holds -/
def Variant.storedFilter : Variant → Nat
  | .small => FS | _ => FM
def Variant.storedTops : Variant → Nat
  | .small => TS | _ => TM

theorem normFrom_getElem? (v : Variant) (s : Nat) (es : List Entry) (i : Nat) :
    (normFrom v s es)[i]? = (es[i]?).map (normEntry v (s + i)) := by
  induction es generalizing s i with
  | nil => simp [normFrom]
  | cons e es ih =>
    cases i with
    | zero => simp [normFrom]
    | succ i => simp only [normFrom, List.getElem?_cons_succ, ih]; congr 2; omega

/-- **C39_track_positions** — what survives for EVERY track, position by position: the i-th entry written
    comes back as the i-th entry (under id i) with the same simhash, the same top terms up to zero
    padding / truncation to the stored count, the same filter when it had the stored size, and — except in
    the Small variant — the same weight sum, flags and length hint. -/
theorem C39_track_positions (t : Track) (pre post : Bytes) (L : Nat) (hr : t.InRange)
    (hL : (writeTrack t).length ≤ L) :
    ∃ t', readTrack (pre ++ writeTrack t ++ post) pre.length L = .ok t' ∧ t'.variant = t.variant ∧
      t'.entries.length = t.entries.length ∧
      ∀ (i : Nat) (e : Entry), t.entries[i]? = some e → ∃ e' : Entry, t'.entries[i]? = some e' ∧
        e'.frameId = i ∧ e'.simhash = e.simhash ∧
        e'.topTerms = padTake t.variant.storedTops e.topTerms 0 ∧
        (e.termFilter.length = t.variant.storedFilter → e'.termFilter = e.termFilter) ∧
        (t.variant ≠ .small → e'.termWeightSum = e.termWeightSum ∧ e'.flags = e.flags ∧ e'.lengthHint = e.lengthHint) := by
  refine ⟨normalize t, read_write_normal t pre post L hr hL, rfl, normFrom_length _ _ _, ?_⟩
  intro i e he
  refine ⟨normEntry t.variant i e, by simp [normalize, normFrom_getElem?, he], ?_⟩
  cases hv : t.variant
  · refine ⟨rfl, rfl, rfl, ?_, fun h => absurd rfl h⟩
    intro hlen
    exact (smallFilter_eq_self_iff _).mpr hlen
  · refine ⟨rfl, rfl, rfl, ?_, fun _ => ⟨rfl, rfl, rfl⟩⟩
    intro hlen
    exact (padTake_eq_self_iff _ _ _).mpr hlen
  · refine ⟨rfl, rfl, rfl, ?_, fun _ => ⟨rfl, rfl, rfl⟩⟩
    intro hlen
    exact (padTake_eq_self_iff _ _ _).mpr hlen

/-- `generate_sketch` output: filter of the variant's size (restated from C39_filter's proof) -/
theorem generated_filter_length (hash : Bytes → Nat) (wt : Bytes → Nat → Nat) (frameId : Nat) (tokens : List Bytes)
    (v : Variant) (e : Entry) (hg : generateSketch hash wt frameId tokens v = some e) :
    e.termFilter.length = v.filterSize := by
  unfold generateSketch at hg
  split at hg
  · cases hg; simp [Entry.new]
  · obtain ⟨f, hb, hlen, _⟩ := bloom_no_fn ((computeTokenWeights hash wt tokens).map (·.1)) v.filterSize (filterSize_pos v)
    simp only [hb] at hg
    split at hg
    · cases hg
    · cases hg; exact hlen

/-- **C39_roundtrip_keeps_filter** — in the Small and Medium variants the filter of a generated sketch is
    stored whole, so clause 1 still holds for the entry that is read back. -/
theorem C39_roundtrip_keeps_filter (hash : Bytes → Nat) (wt : Bytes → Nat → Nat) (frameId i : Nat)
    (tokens : List Bytes) (v : Variant) (hv : v ≠ .large) (e : Entry)
    (hg : generateSketch hash wt frameId tokens v = some e) :
    (normEntry v i e).termFilter = e.termFilter := by
  have hl := generated_filter_length hash wt frameId tokens v e hg
  cases v
  · exact (smallFilter_eq_self_iff _).mpr hl
  · exact (padTake_eq_self_iff _ _ _).mpr hl
  · exact absurd rfl hv

/-- **C39_large_roundtrip_false_negative** — in the Large variant it does not: the 64-byte filter is cut
    to 32 bytes on disk, the membership test then works modulo 256 bits, and a token of the text is
    reported absent (hash 300: bit 300 of 512 was set, bit 300 mod 256 = 44 is tested). -/
theorem C39_large_roundtrip_false_negative :
    ∃ e, generateSketch (fun _ => 300) wtNoIdf 0 [[97, 97]] .large = some e ∧
      maybeContains e.termFilter 300 = some true ∧
      maybeContains (normEntry .large 0 e).termFilter 300 = some false := by
  refine ⟨_, rfl, ?_, ?_⟩ <;> decide

theorem wtNoIdf_pos (t : Bytes) (c : Nat) : 1 ≤ wtNoIdf t c := by
  have h1 : WEIGHT_MIN = 1 := by decide
  simp only [wtNoIdf, h1]; omega

/-- **C39_small_generated_never_identical** — no sketch produced by `generate_sketch(.., Small, None)` is
    in stored shape: whatever the text, flags / weight sum differ after a write+read of a Small track
    (the variant `Memvid` always writes). -/
theorem C39_small_generated_never_identical (hash : Bytes → Nat) (frameId i : Nat) (tokens : List Bytes) (e : Entry)
    (hg : generateSketch hash wtNoIdf frameId tokens .small = some e) : normEntry .small i e ≠ e := by
  intro hn
  obtain ⟨_, _, _, hw, hf, _⟩ := (normEntry_eq_iff .small i e).mp hn
  unfold generateSketch at hg
  split at hg
  · cases hg
    revert hf; decide
  · rename_i hne
    obtain ⟨f, hb, _, _⟩ := bloom_no_fn ((computeTokenWeights hash wtNoIdf tokens).map (·.1)) Variant.small.filterSize (filterSize_pos _)
    simp only [hb] at hg
    split at hg
    · cases hg
    · cases hg
      simp only at hw hf
      split at hf
      · revert hf; decide
      · -- 50 tokens or more: the flags agree, but the weight sum is at least 1
        cases hd : dedup tokens with
        | nil =>
          cases tokens with
          | nil => simp at hne
          | cons a as => simp [dedup] at hd
        | cons a as =>
          have hlen : (computeTokenWeights hash wtNoIdf tokens).length = as.length + 1 := by
            simp [computeTokenWeights, length_sortPairs, hd]
          cases hc : computeTokenWeights hash wtNoIdf tokens with
          | nil => rw [hc] at hlen; simp at hlen
          | cons p ps =>
            have hp : p ∈ computeTokenWeights hash wtNoIdf tokens := by rw [hc]; simp
            simp only [computeTokenWeights, mem_sortPairs, List.mem_map] at hp
            obtain ⟨t, _, rfl⟩ := hp
            have := wtNoIdf_pos t (tokens.count t)
            rw [hc] at hw
            have hts : Variant.small.topTermsCount = 2 := by decide
            simp only [hts, List.take_succ_cons, List.map_cons, List.sum_cons] at hw
            omega

end Mv.Sketch
