/- Driver for C33 (text normalization). Text travels as comma-separated decimal code points
   (`-` = empty). The Unicode black boxes are supplied by the harness on the wire; control /
   whitespace classes are the model's std tables (checked exhaustively through `tables`).
   requests:
     cfg                                   → prefilter=<cps|none> trail=<0|1> minlimit=<n>
     tables                                → ctl <cps> ws <cps>          (every scalar value classified)
     pre <cps>                             → <cps>                        filter in front of nfkc (source shape)
     prefix <cps>                          → <cps>                        the same, repaired arrangement
     clean <cps>                           → none | some <cps>            trim(clean(x)) for an already NFKC-ed x
     norm <limit> <input> <nfkc> <lens>    → none | some <cps> <0|1> | panic   normalizeSrc (literal loop), nfkc(pre input) = <nfkc>,
                                                                           graphemes(trimmed) = split by <lens>
     normfix / normorig  (same arguments)  → the repaired / original arrangement
     trunc <limit> <cps> <lens>            → <idx>                        truncate_at_grapheme_boundary -/
import MvModel.Text
import MvModel.DrvUtil
open Mv Mv.Text

def toChars (l : List Nat) : List Char := l.map Char.ofNat
def showChars (s : List Char) : String := showNats (s.map Char.toNat)

def drvUni (nf : List Char) (lens : List Nat) : Uni :=
  { nfkc := fun _ => nf, isControl := stdIsControl, isWhitespace := stdIsWhitespace,
    graphemes := splitLens lens }

def showNorm (r : Option (Option (List Char × Bool))) : String :=
  match r with
  | none => "panic"
  | some none => "none"
  | some (some (t, tr)) => s!"some {showChars t} {if tr then 1 else 0}"

def classify (p : Char → Bool) : List Nat :=
  (List.range 0x110000).filter (fun n => (Char.ofNat n).toNat = n && p (Char.ofNat n))

def runNorm (f : Uni → List Char → Nat → Option (Option (List Char × Bool))) (l i n g : String) : String :=
  match l.toNat?, natList i, natList n, natList g with
  | some l, some i, some n, some g => showNorm (f (drvUni (toChars n) g) (toChars i) l)
  | _, _, _, _ => "bad-op"

def step (_ : Unit) (ws : List String) : Unit × String :=
  match ws with
  | ["cfg"] =>
    let k := match Mv.Gen.C33.PREFILTER_KEEP with
      | some ks => showChars ks
      | none => "none"
    ((), s!"prefilter={k} trail={if Mv.Gen.C33.TRAIL_FIX then 1 else 0} minlimit={MIN_LIMIT}")
  | ["tables"] => ((), s!"ctl {showNats (classify stdIsControl)} ws {showNats (classify stdIsWhitespace)}")
  | ["pre", x] => match natList x with
    | some x => ((), showChars (prefilter Mv.Gen.C33.PREFILTER_KEEP (drvUni [] []) (toChars x)))
    | none => ((), "bad-op")
  | ["prefix", x] => match natList x with
    | some x => ((), showChars (prefilter (some ['\n', '\r', '\t']) (drvUni [] []) (toChars x)))
    | none => ((), "bad-op")
  | ["clean", x] => match natList x with
    | some x =>
      let t := trimWs (drvUni [] []) (clean (drvUni [] []) (toChars x))
      ((), if t.isEmpty then "none" else s!"some {showChars t}")
    | none => ((), "bad-op")
  | ["norm", l, i, n, g] => ((), runNorm normalizeSrc l i n g)
  | ["normfix", l, i, n, g] => ((), runNorm (normalizeLit (some ['\n', '\r', '\t']) true) l i n g)
  | ["normorig", l, i, n, g] => ((), runNorm (normalizeLit none false) l i n g)
  | ["trunc", l, x, g] => match l.toNat?, natList x, natList g with
    | some l, some x, some g => ((), toString (truncIdx (drvUni [] g) (toChars x) l))
    | _, _, _ => ((), "bad-op")
  | _ => ((), "bad-op")

def main : IO Unit := runDriver () step
