/-
  C38 — SIMD distance equals the scalar definition.
  Model: MvModel/Simd.lean (mirror of /repo/src/simd.rs, lane width generated from the source).

  What can be a theorem: floats are opaque to the kernel, so nothing below talks about rounding.
  (i)  `C38_simd_eq_scalar` / `C38_ring_sum`: whenever `add` is associative and commutative with
       neutral start values (any commutative ring, e.g. ℚ or ℝ — NOT f32), the lane structure
       computes exactly the scalar definition Σ (aᵢ-bᵢ)², for every length and EVERY lane width:
       the two code paths differ only by re-association of the additions.
  (ii) `C38_symm`, `C38_self_zero`: from identities that ARE valid for finite IEEE-754 values
       (`IeeeLaws`), symmetry and self-distance-zero hold exactly for the lane structure as written.
  The size of the rounding difference between the two paths on f32 is only sampled (harness).
-/
import MvModel.Simd
namespace Mv.Simd
open Mv.Gen.C38

variable {F : Type}

/-! ### hypotheses, named -/

/-- what re-association needs: `add` is an abelian monoid operation, both start values neutral.
    True in every commutative ring; FALSE for f32 (`add_assoc` fails by rounding). -/
structure AddLaws (o : Ops F) : Prop where
  add_assoc : ∀ x y z, o.add (o.add x y) z = o.add x (o.add y z)
  add_comm : ∀ x y, o.add x y = o.add y x
  zero_add : ∀ x, o.add o.zero x = x
  init_add : ∀ x, o.add o.sumInit x = x

/-- identities valid for IEEE-754 binary32 under round-to-nearest, `fin` = "is finite":
    for bit patterns x ≠ y the difference is exactly negated when the operands are swapped,
    squaring forgets the sign, x - x = +0, (+0)·(+0) = +0, (+0)+(+0) = +0, (-0)+(+0) = +0,
    sqrt(+0) = +0.  These are assumptions about f32 (sampled by the harness), not theorems. -/
structure IeeeLaws (o : Ops F) (fin : F → Prop) : Prop where
  sub_anti : ∀ x y, fin x → fin y → x ≠ y → o.sub x y = o.neg (o.sub y x)
  neg_mul_neg : ∀ x y, fin x → fin y →
    o.mul (o.neg (o.sub y x)) (o.neg (o.sub y x)) = o.mul (o.sub y x) (o.sub y x)
  sub_self : ∀ x, fin x → o.sub x x = o.zero
  mul_zero : o.mul o.zero o.zero = o.zero
  add_zero : o.add o.zero o.zero = o.zero
  init_add_zero : o.add o.sumInit o.zero = o.zero
  sqrt_zero : o.sqrt o.zero = o.zero

/-! ### the model is the lane structure over the list of squared differences -/

theorem zipWith_mul_sub (o : Ops F) (x y : List F) :
    List.zipWith o.mul (List.zipWith o.sub x y) (List.zipWith o.sub x y)
      = List.zipWith (sqDiff o) x y := by
  induction x generalizing y with
  | nil => simp
  | cons a x ih =>
    cases y with
    | nil => simp
    | cons b y => simp only [List.zipWith_cons_cons, ih, sqDiff]

theorem chunk_zipWith (f : F → F → F) (w : Nat) (a b : List F) (i : Nat) :
    chunk w (List.zipWith f a b) i = List.zipWith f (chunk w a i) (chunk w b i) := by
  simp only [chunk, List.take_zipWith, List.drop_zipWith]

theorem laneAcc_eq_D (o : Ops F) (w : Nat) (a b : List F) (n : Nat) :
    laneAcc o w a b n = laneAccD o w (List.zipWith (sqDiff o) a b) n := by
  induction n with
  | zero => rfl
  | succ n ih => simp only [laneAcc, laneAccD, ih, zipWith_mul_sub, chunk_zipWith]

theorem sumSqW_eq_D (o : Ops F) (w : Nat) (a b : List F) (h : a.length = b.length) :
    sumSqW o w a b = laneSumD o w (List.zipWith (sqDiff o) a b) := by
  have hl : (List.zipWith (sqDiff o) a b).length = a.length := by
    simp [List.length_zipWith, h]
  simp only [sumSqW, laneSumD, remLoop, hl, laneAcc_eq_D, List.take_zipWith, List.drop_zipWith]

/-! ### (i) re-association -/

/-- right-nested sum `x₀ + (x₁ + (… + 0))` -/
def lsum (o : Ops F) : List F → F
  | [] => o.zero
  | x :: xs => o.add x (lsum o xs)

section assoc
variable {o : Ops F} (L : AddLaws o)
include L

theorem add_zero' (x : F) : o.add x o.zero = x := by rw [L.add_comm, L.zero_add]

theorem foldl_add (x : F) (l : List F) : l.foldl o.add x = o.add x (lsum o l) := by
  induction l generalizing x with
  | nil => simp [lsum, add_zero' L]
  | cons y l ih => simp only [List.foldl_cons, ih, lsum, L.add_assoc]

theorem lsum_append (l₁ l₂ : List F) : lsum o (l₁ ++ l₂) = o.add (lsum o l₁) (lsum o l₂) := by
  induction l₁ with
  | nil => simp [lsum, L.zero_add]
  | cons x l ih => simp only [List.cons_append, lsum, ih, L.add_assoc]

theorem lsum_zipWith_add (s t : List F) (h : s.length = t.length) :
    lsum o (List.zipWith o.add s t) = o.add (lsum o s) (lsum o t) := by
  induction s generalizing t with
  | nil => cases t with
    | nil => simp [lsum, L.zero_add]
    | cons y t => simp at h
  | cons x s ih => cases t with
    | nil => simp at h
    | cons y t =>
      have h' : s.length = t.length := by simpa using h
      simp only [List.zipWith_cons_cons, lsum, ih t h']
      rw [L.add_assoc, L.add_assoc]
      congr 1
      rw [← L.add_assoc, ← L.add_assoc, L.add_comm y]

theorem lsum_replicate_zero (n : Nat) : lsum o (List.replicate n o.zero) = o.zero := by
  induction n with
  | zero => rfl
  | succ n ih => simp only [List.replicate_succ, lsum, ih, L.zero_add]

omit L in
theorem length_chunk (w : Nat) (d : List F) (n : Nat) (h : (n + 1) * w ≤ d.length) :
    (chunk w d n).length = w := by
  simp only [chunk, List.length_take, List.length_drop]
  rw [Nat.succ_mul] at h
  omega

omit L in
theorem length_laneAccD (w : Nat) (d : List F) (n : Nat) (h : n * w ≤ d.length) :
    (laneAccD o w d n).length = w := by
  induction n with
  | zero => simp [laneAccD]
  | succ n ih =>
    have h1 : n * w ≤ d.length := by rw [Nat.succ_mul] at h; omega
    simp only [laneAccD, List.length_zipWith, ih h1, length_chunk w d n h]
    omega

theorem lsum_laneAccD (w : Nat) (d : List F) (n : Nat) (h : n * w ≤ d.length) :
    lsum o (laneAccD o w d n) = lsum o (d.take (n * w)) := by
  induction n with
  | zero => simp [laneAccD, lsum_replicate_zero L, lsum]
  | succ n ih =>
    have h1 : n * w ≤ d.length := by rw [Nat.succ_mul] at h; omega
    have hlen : (laneAccD o w d n).length = (chunk w d n).length := by
      rw [length_laneAccD w d n h1, length_chunk w d n h]
    have ht : d.take ((n + 1) * w) = d.take (n * w) ++ chunk w d n := by
      rw [Nat.succ_mul, List.take_add]; rfl
    rw [laneAccD, lsum_zipWith_add L _ _ hlen, ih h1, ht, lsum_append L]

/-- the lane structure over `d` is the plain left-to-right sum of `d` -/
theorem laneSumD_eq_foldl (w : Nat) (d : List F) :
    laneSumD o w d = d.foldl o.add o.sumInit := by
  have hk : d.length / w * w ≤ d.length := Nat.div_mul_le_self _ _
  have hm : d.length / w * w + d.length % w = d.length := by
    rw [Nat.mul_comm]; exact Nat.div_add_mod _ _
  have hrest : (d.drop (d.length / w * w)).take (d.length % w) = d.drop (d.length / w * w) := by
    apply List.take_of_length_le
    simp only [List.length_drop]; omega
  unfold laneSumD
  rw [hrest, foldl_add L, hsum, foldl_add L, L.init_add, lsum_laneAccD L w d _ hk,
    ← lsum_append L, List.take_append_drop, foldl_add L, L.init_add]

end assoc

/-- **C38 (i)**: for every lane width and every length (all remainders), the accelerated kernel
    equals the scalar definition whenever addition is associative-commutative. -/
theorem C38_simd_eq_scalar (o : Ops F) (L : AddLaws o) (w : Nat) (a b : List F)
    (h : a.length = b.length) : sumSqW o w a b = scalarSumSq o a b := by
  rw [sumSqW_eq_D o w a b h, laneSumD_eq_foldl L]; rfl

/-- the same for the two public functions of src/simd.rs (width = the width in the source) -/
theorem C38_l2_eq_scalar (o : Ops F) (L : AddLaws o) (a b : List F) (h : a.length = b.length) :
    l2DistanceSquaredSimd o a b = some (scalarSumSq o a b) ∧
    l2DistanceSimd o a b = some (scalarL2 o a b) := by
  simp [l2DistanceSimd, l2DistanceSquaredSimd, h, C38_simd_eq_scalar o L LANES a b h, scalarL2]

/-- a commutative ring seen as `Ops` (any `sqrt`) -/
def ringOps (R : Type) [Lean.Grind.CommRing R] (sqrt : R → R) : Ops R where
  zero := 0
  sumInit := 0
  add := (· + ·)
  sub := (· - ·)
  mul := (· * ·)
  neg := (- ·)
  sqrt := sqrt

theorem ringOps_addLaws (R : Type) [Lean.Grind.CommRing R] (sqrt : R → R) :
    AddLaws (ringOps R sqrt) where
  add_assoc := by intro x y z; simp only [ringOps]; grind
  add_comm := by intro x y; simp only [ringOps]; grind
  zero_add := by intro x; simp only [ringOps]; grind
  init_add := by intro x; simp only [ringOps]; grind

theorem ringOps_ieeeLaws (R : Type) [Lean.Grind.CommRing R] (sqrt : R → R) (h0 : sqrt 0 = 0) :
    IeeeLaws (ringOps R sqrt) (fun _ => True) where
  sub_anti := by intro x y _ _ _; simp only [ringOps]; grind
  neg_mul_neg := by intro x y _ _; simp only [ringOps]; grind
  sub_self := by intro x _; simp only [ringOps]; grind
  mul_zero := by simp only [ringOps]; grind
  add_zero := by simp only [ringOps]; grind
  init_add_zero := by simp only [ringOps]; grind
  sqrt_zero := h0

theorem foldl_ring_sum (R : Type) [Lean.Grind.CommRing R] (sqrt : R → R) (d : List R) :
    d.foldl (ringOps R sqrt).add (ringOps R sqrt).sumInit = d.sum := by
  rw [foldl_add (ringOps_addLaws R sqrt), (ringOps_addLaws R sqrt).init_add]
  induction d with
  | nil => rfl
  | cons x d ih => simp only [lsum, List.sum_cons, ih]; rfl

/-- **C38 (i), ring form**: over any commutative ring (ℚ, ℝ, ℤ …) the accelerated squared
    distance is Σ (aᵢ - bᵢ)², and the distance is its `sqrt`. -/
theorem C38_ring_sum (R : Type) [Lean.Grind.CommRing R] (sqrt : R → R) (a b : List R)
    (h : a.length = b.length) :
    l2DistanceSquaredSimd (ringOps R sqrt) a b
      = some ((List.zipWith (fun x y => (x - y) * (x - y)) a b).sum) ∧
    l2DistanceSimd (ringOps R sqrt) a b
      = some (sqrt ((List.zipWith (fun x y => (x - y) * (x - y)) a b).sum)) := by
  have h1 := (C38_l2_eq_scalar (ringOps R sqrt) (ringOps_addLaws R sqrt) a b h).1
  have h2 : scalarSumSq (ringOps R sqrt) a b
      = (List.zipWith (fun x y => (x - y) * (x - y)) a b).sum := by
    unfold scalarSumSq; rw [foldl_ring_sum]; rfl
  rw [l2DistanceSimd, h1, h2]
  exact ⟨rfl, rfl⟩

/-- the exact instance run by the driver is such a ring instance -/
theorem ratOps_eq_ringOps : ratOps = ringOps Rat ratSqrt := rfl

/-- so the driver's answers are Σ (aᵢ - bᵢ)² over ℚ -/
theorem C38_rat_sum (a b : List Rat) (h : a.length = b.length) :
    l2DistanceSquaredSimd ratOps a b
      = some ((List.zipWith (fun x y => (x - y) * (x - y)) a b).sum) := by
  rw [ratOps_eq_ringOps]; exact (C38_ring_sum Rat ratSqrt a b h).1

/-- unequal lengths: the debug assertion fires (nothing else is claimed for that case) -/
theorem C38_len_mismatch (o : Ops F) (a b : List F) (h : a.length ≠ b.length) :
    l2DistanceSquaredSimd o a b = none ∧ l2DistanceSimd o a b = none := by
  simp [l2DistanceSimd, l2DistanceSquaredSimd, h]

/-! ### (ii) exact symmetry and exact self-distance zero from IEEE-valid identities -/

theorem sqDiff_symm {o : Ops F} {fin : F → Prop} (I : IeeeLaws o fin) (x y : F)
    (hx : fin x) (hy : fin y) : sqDiff o x y = sqDiff o y x := by
  by_cases hxy : x = y
  · subst hxy; rfl
  · simp only [sqDiff]
    rw [I.sub_anti x y hx hy hxy, I.neg_mul_neg x y hx hy]

theorem zipWith_sqDiff_symm {o : Ops F} {fin : F → Prop} (I : IeeeLaws o fin) (a b : List F)
    (ha : ∀ x ∈ a, fin x) (hb : ∀ y ∈ b, fin y) :
    List.zipWith (sqDiff o) a b = List.zipWith (sqDiff o) b a := by
  induction a generalizing b with
  | nil => simp
  | cons x a ih =>
    cases b with
    | nil => simp
    | cons y b =>
      simp only [List.zipWith_cons_cons]
      rw [sqDiff_symm I x y (ha x (by simp)) (hb y (by simp)),
        ih b (fun z hz => ha z (by simp [hz])) (fun z hz => hb z (by simp [hz]))]

/-- **C38 symmetry**: d(a,b) and d(b,a) are the same value, exactly, for every lane width. -/
theorem C38_symm_w (o : Ops F) (fin : F → Prop) (I : IeeeLaws o fin) (w : Nat) (a b : List F)
    (h : a.length = b.length) (ha : ∀ x ∈ a, fin x) (hb : ∀ y ∈ b, fin y) :
    sumSqW o w a b = sumSqW o w b a := by
  rw [sumSqW_eq_D o w a b h, sumSqW_eq_D o w b a h.symm, zipWith_sqDiff_symm I a b ha hb]

theorem C38_symm (o : Ops F) (fin : F → Prop) (I : IeeeLaws o fin) (a b : List F)
    (ha : ∀ x ∈ a, fin x) (hb : ∀ y ∈ b, fin y) :
    l2DistanceSquaredSimd o a b = l2DistanceSquaredSimd o b a ∧
    l2DistanceSimd o a b = l2DistanceSimd o b a := by
  by_cases h : a.length = b.length
  · simp [l2DistanceSimd, l2DistanceSquaredSimd, h, C38_symm_w o fin I LANES a b h ha hb]
  · have h' : ¬ b.length = a.length := fun e => h e.symm
    simp [l2DistanceSimd, l2DistanceSquaredSimd, h, h']

theorem zipWith_sqDiff_self {o : Ops F} {fin : F → Prop} (I : IeeeLaws o fin) (a : List F)
    (ha : ∀ x ∈ a, fin x) :
    List.zipWith (sqDiff o) a a = List.replicate a.length o.zero := by
  induction a with
  | nil => rfl
  | cons x a ih =>
    simp only [List.zipWith_cons_cons, List.length_cons, List.replicate_succ]
    rw [ih (fun z hz => ha z (by simp [hz]))]
    simp only [sqDiff, I.sub_self x (ha x (by simp)), I.mul_zero]

theorem foldl_replicate_zero {o : Ops F} (h : o.add o.zero o.zero = o.zero) (n : Nat) :
    (List.replicate n o.zero).foldl o.add o.zero = o.zero := by
  induction n with
  | zero => rfl
  | succ n ih => simp only [List.replicate_succ, List.foldl_cons, h, ih]

theorem laneAccD_replicate_zero {o : Ops F} (h : o.add o.zero o.zero = o.zero) (w n c : Nat)
    (hc : c * w ≤ n) : laneAccD o w (List.replicate n o.zero) c = List.replicate w o.zero := by
  induction c with
  | zero => rfl
  | succ c ih =>
    rw [Nat.succ_mul] at hc
    have h1 : c * w ≤ n := by omega
    have h2 : min w (min w (n - c * w)) = w := by omega
    simp only [laneAccD, ih h1, chunk, List.drop_replicate, List.take_replicate,
      List.zipWith_replicate, h, h2]

theorem laneSumD_replicate_zero {o : Ops F} {fin : F → Prop} (I : IeeeLaws o fin) (w n : Nat)
    (hw : 0 < w) : laneSumD o w (List.replicate n o.zero) = o.zero := by
  have hk : n / w * w ≤ n := Nat.div_mul_le_self _ _
  obtain ⟨w', rfl⟩ : ∃ w', w = w' + 1 := ⟨w - 1, by omega⟩
  simp only [laneSumD, List.length_replicate, laneAccD_replicate_zero I.add_zero (w' + 1) n _ hk,
    hsum, List.replicate_succ, List.foldl_cons, I.init_add_zero,
    foldl_replicate_zero I.add_zero, List.drop_replicate, List.take_replicate]

theorem LANES_pos : 0 < LANES := by decide

/-- **C38 self-distance**: d(a,a) is exactly `+0` (squared and after `sqrt`). -/
theorem C38_self_zero (o : Ops F) (fin : F → Prop) (I : IeeeLaws o fin) (a : List F)
    (ha : ∀ x ∈ a, fin x) :
    l2DistanceSquaredSimd o a a = some o.zero ∧ l2DistanceSimd o a a = some o.zero := by
  have h : sumSqW o LANES a a = o.zero := by
    rw [sumSqW_eq_D o LANES a a rfl, zipWith_sqDiff_self I a ha,
      laneSumD_replicate_zero I LANES a.length LANES_pos]
  simp [l2DistanceSimd, l2DistanceSquaredSimd, h, I.sqrt_zero]

/-! ### non-vacuity -/

theorem ratSqrt_zero : ratSqrt 0 = 0 := by
  simp only [ratSqrt, Nat.sqrt]; simp; grind

/-- ℚ satisfies both sets of hypotheses -/
example : AddLaws ratOps := ratOps_eq_ringOps ▸ ringOps_addLaws Rat ratSqrt
example : IeeeLaws ratOps (fun _ => True) :=
  ratOps_eq_ringOps ▸ ringOps_ieeeLaws Rat ratSqrt ratSqrt_zero

/-- 11 = 8 + 3 elements: one full register and a scalar remainder, over ℤ -/
def intOps : Ops Int where
  zero := 0
  sumInit := 0
  add := (· + ·)
  sub := (· - ·)
  mul := (· * ·)
  neg := (- ·)
  sqrt x := Int.ofNat (Nat.sqrt x.toNat)

example : l2DistanceSquaredSimd intOps [1, 2, 3, 4, 5, 6, 7, 8, 9, 10, 11]
    [0, 0, 0, 0, 0, 0, 0, 0, 0, 0, 13] = some (1+4+9+16+25+36+49+64+81+100+4) := by decide
example : l2DistanceSimd intOps [3, 0, 0, 0, 0, 0, 0, 0, 0] [0, 0, 0, 0, 0, 0, 0, 0, 4]
    = some 5 := by decide +kernel
example : l2DistanceSquaredSimd intOps [1, 2] [1] = none := by decide

end Mv.Simd
