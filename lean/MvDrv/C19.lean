/- Driver for C19 (directory model, MvModel/Dir.lean).  Names are tokens without spaces/commas.
   requests
     reset <n1,n2,…|->                          → ok                 (initial directory; forgets handles)
     create <n> <none|io|lock|late>
     open <n> <ro:0|1> <none|lock|corrupt>
     call <n> mutate <accepted:0|1> <ac:0|1> <stage>
     call <n> commit <work:0|1> <stage>
     call <n> vacuum <work:0|1> <stage>
     call <n> inplace <ok:0|1>      call <n> read <ok:0|1>
     drop <n> <dirty:0|1> <stage>               forget <n>
     doctor <n> <lock:0|1> <stage;stage;…|-> <ok:0|1>
     ext creat <x> | ext unlink <x> | ext rename <a> <b>
         → <res> | <effects> | <sorted listing> | <caller's view, sorted> | <sorted handles>
           res: ok | aux:<candidate> | io | lock | corrupt | late | rejected | commit-failed | failed | no-handle
           effects: creat:<x> unlink:<x> rename:<a>><b>, comma separated, `-` when none
     esf <n>                                    → none | some <candidate>     (ensure_single_file now)
     cands <n>                                  → the candidate names in scan order
     tmpok <name> <n>                           → 1 when <name> = tmpName n r for a valid random suffix r
   stage: early | mid:<r1/r2/…> | cfault:<…> | post:<…> | ok:<…>   (random suffixes tried in order, `-` = none)
   A suffix that `RandomName` cannot produce (not 6 ASCII alphanumerics) is answered with `bad-suffix`. -/
import MvModel.Dir
import MvModel.DrvUtil
open Mv Mv.Dir

structure DS where
  st : St := { dir := [] }
  caller : List Name := []

def nm (s : String) : Name := s.toList
def showName (n : Name) : String := String.ofList n

def sortStrs (l : List String) : List String := l.mergeSort (fun a b => !(b < a))

def showNames (l : List Name) : String :=
  if l.isEmpty then "-" else ",".intercalate (sortStrs (l.map showName))

def showEff : Eff → String
  | .creat x => s!"creat:{showName x}"
  | .unlink x => s!"unlink:{showName x}"
  | .rename a b => s!"rename:{showName a}>{showName b}"

def showEffs (l : List Eff) : String :=
  if l.isEmpty then "-" else ",".intercalate (l.map showEff)

def showRes : Res → String
  | .ok => "ok"
  | .aux c => s!"aux:{showName c}"
  | .io => "io"
  | .lock => "lock"
  | .corrupt => "corrupt"
  | .late => "late"
  | .rejected => "rejected"
  | .commitFailed => "commit-failed"
  | .failed => "failed"
  | .noHandle => "no-handle"

def parseBool : String → Option Bool
  | "0" => some false
  | "1" => some true
  | _ => none

def parseSufs (s : String) : List (List Char) :=
  if s == "-" then [] else (s.splitOn "/").map String.toList

def parseStage (s : String) : Option Stage :=
  if s == "early" then some .early
  else match s.splitOn ":" with
    | ["mid", r] => some (.mid (parseSufs r))
    | ["cfault", r] => some (.commitFault (parseSufs r))
    | ["post", r] => some (.post (parseSufs r))
    | ["ok", r] => some (.ok (parseSufs r))
    | _ => none

def parseStages (s : String) : Option (List Stage) :=
  if s == "-" then some [] else (s.splitOn ";").mapM parseStage

def stageSufs : Stage → List (List Char)
  | .early => []
  | .mid r => r
  | .commitFault r => r
  | .post r => r
  | .ok r => r

def parseCreateFault : String → Option CreateFault
  | "none" => some .none
  | "io" => some .io
  | "lock" => some .lock
  | "late" => some .late
  | _ => none

def parseOpenFault : String → Option OpenFault
  | "none" => some .none
  | "lock" => some .lock
  | "corrupt" => some .corrupt
  | _ => none

def parseOp : List String → Option Op
  | ["create", n, f] => (parseCreateFault f).map (Op.create (nm n))
  | ["open", n, ro, f] => do some (Op.open (nm n) (← parseBool ro) (← parseOpenFault f))
  | ["call", n, "mutate", a, ac, st] => do
      some (Op.call (nm n) (.mutate (← parseBool a) (← parseBool ac) (← parseStage st)))
  | ["call", n, "commit", w, st] => do some (Op.call (nm n) (.commit (← parseBool w) (← parseStage st)))
  | ["call", n, "vacuum", w, st] => do some (Op.call (nm n) (.vacuum (← parseBool w) (← parseStage st)))
  | ["call", n, "inplace", ok] => do some (Op.call (nm n) (.inplace (← parseBool ok)))
  | ["call", n, "read", ok] => do some (Op.call (nm n) (.read (← parseBool ok)))
  | ["drop", n, d, st] => do some (Op.drop (nm n) (← parseBool d) (← parseStage st))
  | ["forget", n] => some (Op.forget (nm n))
  | ["doctor", n, l, sts, ok] => do some (Op.doctor (nm n) (← parseBool l) (← parseStages sts) (← parseBool ok))
  | ["ext", "creat", x] => some (Op.ext (.creat (nm x)))
  | ["ext", "unlink", x] => some (Op.ext (.unlink (nm x)))
  | ["ext", "rename", a, b] => some (Op.ext (.rename (nm a) (nm b)))
  | _ => none

/-- all random suffixes mentioned by the operation -/
def opSufs : Op → List (List Char)
  | .call _ (.mutate _ _ st) => stageSufs st
  | .call _ (.commit _ st) => stageSufs st
  | .call _ (.vacuum _ st) => stageSufs st
  | .drop _ _ st => stageSufs st
  | .doctor _ _ sts _ => sts.flatMap stageSufs
  | _ => []

def isTmpOf (x n : Name) : Bool :=
  let pre := Mv.Gen.C19.tmpLead ++ n ++ Mv.Gen.C19.tmpSep
  pre.isPrefixOf x && validSuffix (x.drop pre.length)

def step (s : DS) (ws : List String) : DS × String :=
  match ws with
  | ["reset", names] =>
      let d := if names == "-" then [] else ((names.splitOn ",").map nm).eraseDups
      ({ st := { dir := d }, caller := d }, "ok")
  | ["esf", n] =>
      (s, match ensureSingleFile s.st.dir (nm n) with
          | none => "none"
          | some c => s!"some {showName c}")
  | ["cands", n] => (s, ",".intercalate ((candidates (nm n)).map showName))
  | ["tmpok", x, n] => (s, if isTmpOf (nm x) (nm n) then "1" else "0")
  | _ =>
    match parseOp ws with
    | none => (s, "bad-op")
    | some op =>
      if (opSufs op).any (fun r => !validSuffix r) then (s, "bad-suffix")
      else
        let (st', es, r) := Mv.Dir.step s.st op
        let c' := callerStep s.caller op
        ({ st := st', caller := c' },
         s!"{showRes r} | {showEffs es} | {showNames st'.dir} | {showNames c'} | {showNames st'.handles}")

def main : IO Unit := runDriver ({} : DS) step
