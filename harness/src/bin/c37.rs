//! C37 — adaptive retrieval cut-off respects its bounds.
//! impl: memvid_core::types::adaptive::{find_adaptive_cutoff, normalize_scores} (public API);
//! model: drv_c37 (`cut`, `norm`: the Lean model run over a software binary32, bit-exact);
//! oracle: the property restated over the implementation's outputs (bounds, [0,1] + max ↦ 1,
//! threshold clause), independent of the model.  f32 travel as bit patterns.
use memvid_core::types::adaptive::{AdaptiveConfig, CutoffStrategy, find_adaptive_cutoff, normalize_scores};
use mvh::*;

const SIG_OVERFLOW: &str = "normalize-range-overflow-yields-nan";

#[derive(Clone, Debug)]
enum Strat { Abs(f32), Rel(f32), Cliff(f32), Elbow(f32), Comb(f32, f32, f32), Default }

#[derive(Clone, Debug)]
struct Cut { scores: Vec<f32>, normalize: bool, min_results: usize, strat: Strat }

#[derive(Clone, Debug)]
enum Case { Cut(Cut), Op(String, u32, u32) }

fn canon_bits(v: f32) -> u32 {
    if v.is_nan() { 0x7FC0_0000 } else if v == 0.0 { 0 } else { v.to_bits() }
}
fn bits_list(xs: &[f32]) -> String {
    if xs.is_empty() { "-".into() } else { xs.iter().map(|v| v.to_bits().to_string()).collect::<Vec<_>>().join(",") }
}
fn canon_list(xs: &[f32]) -> String {
    if xs.is_empty() { "-".into() } else { xs.iter().map(|v| canon_bits(*v).to_string()).collect::<Vec<_>>().join(",") }
}
/// canonicalise the model's answer list the same way (-0 → +0; NaN is already canonical)
fn canon_model_list(s: &str) -> String {
    if s == "-" { return s.into(); }
    s.split(',').map(|t| match t.parse::<u32>() { Ok(0x8000_0000) => "0".to_string(), _ => t.to_string() }).collect::<Vec<_>>().join(",")
}

impl Strat {
    fn wire(&self) -> String {
        match self {
            Strat::Abs(a) => format!("abs {}", a.to_bits()),
            Strat::Rel(a) => format!("rel {}", a.to_bits()),
            Strat::Cliff(a) => format!("cliff {}", a.to_bits()),
            Strat::Elbow(a) => format!("elbow {}", a.to_bits()),
            Strat::Comb(r, d, a) => format!("comb {} {} {}", r.to_bits(), d.to_bits(), a.to_bits()),
            Strat::Default => "default".into(),
        }
    }
    fn params(&self) -> Vec<f32> {
        match self {
            Strat::Abs(a) | Strat::Rel(a) | Strat::Cliff(a) | Strat::Elbow(a) => vec![*a],
            Strat::Comb(r, d, a) => vec![*r, *d, *a],
            Strat::Default => vec![],
        }
    }
    fn name(&self) -> &'static str {
        match self { Strat::Abs(_) => "abs", Strat::Rel(_) => "rel", Strat::Cliff(_) => "cliff", Strat::Elbow(_) => "elbow", Strat::Comb(..) => "comb", Strat::Default => "default" }
    }
    fn to_json(&self) -> Value {
        json!({"type": self.name(), "p": self.params().iter().map(|v| v.to_bits()).collect::<Vec<_>>()})
    }
    fn from_json(v: &Value) -> Strat {
        let p: Vec<f32> = v["p"].as_array().map(|a| a.iter().map(|x| f32::from_bits(x.as_u64().unwrap() as u32)).collect()).unwrap_or_default();
        match v["type"].as_str().unwrap() {
            "abs" => Strat::Abs(p[0]), "rel" => Strat::Rel(p[0]), "cliff" => Strat::Cliff(p[0]), "elbow" => Strat::Elbow(p[0]),
            "comb" => Strat::Comb(p[0], p[1], p[2]), _ => Strat::Default,
        }
    }
}

impl Cut {
    fn config(&self) -> AdaptiveConfig {
        if let Strat::Default = self.strat { return AdaptiveConfig::default(); }
        AdaptiveConfig {
            enabled: true,
            max_results: 100,
            min_results: self.min_results,
            normalize_scores: self.normalize,
            strategy: match self.strat {
                Strat::Abs(a) => CutoffStrategy::AbsoluteThreshold { min_score: a },
                Strat::Rel(a) => CutoffStrategy::RelativeThreshold { min_ratio: a },
                Strat::Cliff(a) => CutoffStrategy::ScoreCliff { max_drop_ratio: a },
                Strat::Elbow(a) => CutoffStrategy::Elbow { sensitivity: a },
                Strat::Comb(r, d, a) => CutoffStrategy::Combined { relative_threshold: r, max_drop_ratio: d, absolute_min: a },
                Strat::Default => unreachable!(),
            },
        }
    }
    fn request(&self) -> String {
        match self.strat {
            Strat::Default => format!("cutdefault {}", bits_list(&self.scores)),
            _ => format!("cut {} {} {} {}", self.normalize as u8, self.min_results, self.strat.wire(), bits_list(&self.scores)),
        }
    }
    fn to_json(&self) -> Value {
        json!({"kind": "cut", "scores": self.scores.iter().map(|v| v.to_bits()).collect::<Vec<_>>(),
               "scores_f32": self.scores.iter().map(|v| format!("{v:e}")).collect::<Vec<_>>(),
               "normalize": self.normalize, "min_results": self.min_results, "strategy": self.strat.to_json()})
    }
}

impl Case {
    fn to_json(&self) -> Value {
        match self {
            Case::Cut(c) => c.to_json(),
            Case::Op(op, a, b) => json!({"kind": "op", "op": op, "a": a, "b": b}),
        }
    }
    fn from_json(v: &Value) -> Case {
        if v["kind"].as_str() == Some("op") {
            return Case::Op(v["op"].as_str().unwrap().into(), v["a"].as_u64().unwrap() as u32, v["b"].as_u64().unwrap_or(0) as u32);
        }
        Case::Cut(Cut {
            scores: v["scores"].as_array().unwrap().iter().map(|x| f32::from_bits(x.as_u64().unwrap() as u32)).collect(),
            normalize: v["normalize"].as_bool().unwrap_or(true),
            min_results: v["min_results"].as_u64().unwrap_or(1) as usize,
            strat: Strat::from_json(&v["strategy"]),
        })
    }
}

fn kind_of(trigger: &str) -> String {
    trigger.split('(').next().unwrap().to_string()
}

// ------------------------------------------------------------------------------------ one cut case
fn run_cut(c: &Cut, drv: &mut Option<Driver>, sum: &mut Summary, known: &[String], verbose: bool) {
    let cfg = c.config();
    let min_results = cfg.min_results;
    let n = c.scores.len();
    let scores = c.scores.clone();
    let cfg2 = cfg.clone();
    let imp = guarded(move || find_adaptive_cutoff(&scores, &cfg2));
    let scores = c.scores.clone();
    let imp_norm = guarded(move || normalize_scores(&scores));
    let imp_txt = match &imp { Ok((k, t)) => format!("{} {}", k, kind_of(t)), Err(e) => format!("panic {e}") };
    let imp_norm_txt = match &imp_norm { Ok(v) => canon_list(v), Err(e) => format!("panic {e}") };
    // ---- model
    let (model_txt, model_norm_txt) = match drv {
        Some(d) => (d.ask(&c.request()), canon_model_list(&d.ask(&format!("norm {}", bits_list(&c.scores))))),
        None => (imp_txt.clone(), imp_norm_txt.clone()),
    };
    if verbose {
        println!("input       : {}", c.to_json());
        println!("impl  cutoff: {imp_txt}   (trigger {:?})", imp.as_ref().map(|x| x.1.clone()));
        println!("model cutoff: {model_txt}");
        println!("impl  normalized : {imp_norm_txt}");
        println!("model normalized : {model_norm_txt}");
    }
    if imp_txt != model_txt {
        sum.disagreement("find_adaptive_cutoff vs model", c.to_json(), &model_txt, &imp_txt);
    }
    if imp_norm_txt != model_norm_txt {
        sum.disagreement("normalize_scores vs model", c.to_json(), &model_norm_txt, &imp_norm_txt);
    }
    // ---- classification of the input
    let has_nan = c.scores.iter().any(|v| v.is_nan()) || c.strat.params().iter().any(|v| v.is_nan());
    let all_finite = c.scores.iter().all(|v| v.is_finite()) && c.strat.params().iter().all(|v| v.is_finite());
    sum.branch(&format!("strategy-{}", c.strat.name()));
    sum.branch(if has_nan { "input-with-nan" } else if all_finite { "input-finite" } else { "input-with-infinity" });
    if n <= min_results { sum.branch("n-le-min-results"); }
    // ---- oracle (a): bounds — for every input whatsoever
    let mut nontrivial = false;
    match &imp {
        Err(e) => sum.oracle_violation("cutoff-panics", &format!("find_adaptive_cutoff panicked: {e}"), c.to_json()),
        Ok((cut, trig)) => {
            let kind = kind_of(trig);
            sum.branch(&format!("trigger-{kind}"));
            if *cut < min_results.min(n) || *cut > n {
                sum.oracle_violation("cutoff-out-of-bounds", &format!("cutoff {cut} not in [min({min_results},{n}), {n}] (trigger {trig})"), c.to_json());
            }
            if *cut < n { sum.branch("cut-before-end"); nontrivial = true; }
            if *cut == min_results && *cut < n { sum.branch("cut-at-min-results"); }
            if *cut + 1 == n { sum.branch("cut-at-n-minus-1"); }
            // labels that promise "nothing cut"
            let full = ["no_cutoff", "too_few_points", "flat_curve", "no_significant_elbow", "min_results", "no_results"];
            if full.contains(&kind.as_str()) && *cut != n {
                sum.oracle_violation("label-says-no-cut-but-cut", &format!("trigger {trig} with cutoff {cut} != n {n}"), c.to_json());
            }
            if (kind == "no_results") != (n == 0) {
                sum.oracle_violation("no-results-label-mismatch", &format!("trigger {trig} for n={n}"), c.to_json());
            }
        }
    }
    // ---- oracle (b): normalized scores in [0,1], maximum ↦ 1  (finite scores only)
    let scores_finite = c.scores.iter().all(|v| v.is_finite());
    let mut norm_ok = true;
    if scores_finite {
        match &imp_norm {
            Err(e) => { norm_ok = false; sum.oracle_violation("normalize-panics", e, c.to_json()); }
            Ok(nv) => {
                let mx = c.scores.iter().copied().fold(f32::NEG_INFINITY, f32::max);
                let mn = c.scores.iter().copied().fold(f32::INFINITY, f32::min);
                let mut bad: Option<String> = None;
                if nv.len() != n { bad = Some(format!("length {} != {}", nv.len(), n)); }
                for (i, y) in nv.iter().enumerate() {
                    if bad.is_some() { break; }
                    if !(*y >= 0.0 && *y <= 1.0) { bad = Some(format!("normalized[{i}] = {y:e} not in [0,1] (score {:e})", c.scores[i])); }
                    else if c.scores[i] == mx && *y != 1.0 { bad = Some(format!("maximum score {:e} at {i} mapped to {y:e}, not 1", mx)); }
                    else if mx == mn && *y != 1.0 { bad = Some(format!("all-equal list: normalized[{i}] = {y:e}")); }
                }
                if n > 0 && mx - mn >= f32::EPSILON { sum.branch("normalize-scaled"); } else if n > 0 { sum.branch("normalize-flat"); }
                if let Some(what) = bad {
                    norm_ok = false;
                    let overflow = !(mx - mn).is_finite();
                    if overflow { sum.branch("normalize-range-overflow"); }
                    if overflow && known.iter().any(|k| k == SIG_OVERFLOW) && imp_norm_txt == model_norm_txt {
                        sum.known_finding(SIG_OVERFLOW, &what, c.to_json());
                    } else {
                        sum.oracle_violation(if overflow { SIG_OVERFLOW } else { "normalize-out-of-range" }, &what, c.to_json());
                    }
                }
            }
        }
    }
    // ---- oracle (c): threshold clause for the absolute / relative strategies (finite inputs)
    if all_finite {
        if let (Ok((cut, _)), Ok(nv)) = (&imp, &imp_norm) {
            let eff: &[f32] = if cfg.normalize_scores { nv } else { &c.scores };
            let thr = match c.strat {
                Strat::Abs(a) => Some(a),
                Strat::Rel(r) if n > 0 => Some(eff[0] * r),
                _ => None,
            };
            let eff_clean = !eff.iter().any(|v| v.is_nan());
            if let Some(thr) = thr {
                if eff_clean && eff.len() == n && *cut <= n {
                    let mut bad: Option<String> = None;
                    for i in min_results..*cut {
                        if !(eff[i] >= thr) { bad = Some(format!("kept result {i} (beyond the first {min_results}) has score {:e} below threshold {:e}", eff[i], thr)); break; }
                    }
                    if bad.is_none() && *cut < n && !(eff[*cut] < thr) {
                        bad = Some(format!("result {} just after the cut-off has score {:e}, not below threshold {:e}", cut, eff[*cut], thr));
                    }
                    if *cut < n && *cut > min_results { sum.branch("threshold-cut-inside"); }
                    if (min_results..*cut).any(|i| eff[i] == thr) { sum.branch("threshold-kept-score-equals-threshold"); }
                    if let Some(what) = bad {
                        sum.oracle_violation("threshold-clause-violated", &what, c.to_json());
                    }
                } else if !eff_clean && norm_ok {
                    sum.oracle_violation("threshold-on-nan-scores", "effective scores contain NaN although the input is finite", c.to_json());
                }
            }
        }
    }
    let canon = format!("{}|{}|{}|{}|{}", c.normalize, c.min_results, c.strat.wire(), canon_list(&c.scores), imp_txt);
    sum.case(&canon, nontrivial, || json!({"n": n, "min_results": min_results, "normalize": cfg.normalize_scores,
        "strategy": c.strat.to_json(), "impl": imp_txt, "first_scores": c.scores.iter().take(6).map(|v| format!("{v:e}")).collect::<Vec<_>>() }));
}

// ------------------------------------------------------------------------------------ one op case
fn hw_op(op: &str, a: u32, b: u32) -> String {
    let (x, y) = (f32::from_bits(a), f32::from_bits(b));
    let r = match op {
        "add" => x + y, "sub" => x - y, "mul" => x * y, "div" => x / y,
        "sqrt" => x.sqrt(), "abs" => x.abs(),
        "ofnat" => (a as usize) as f32,
        "lt" => return if x < y { "1".into() } else { "0".into() },
        _ => return "bad-op".into(),
    };
    // the sign of a zero result IS compared here (only NaN payloads are canonicalised)
    (if r.is_nan() { 0x7FC0_0000 } else { r.to_bits() }).to_string()
}

fn run_op(op: &str, a: u32, b: u32, drv: &mut Option<Driver>, sum: &mut Summary, verbose: bool) {
    let imp = hw_op(op, a, b);
    let req = match op { "sqrt" | "abs" | "ofnat" => format!("op {op} {a}"), _ => format!("op {op} {a} {b}") };
    let model = match drv { Some(d) => d.ask(&req), None => imp.clone() };
    if verbose { println!("op {op} {a} {b}: hardware {imp} model {model}"); }
    sum.branch(&format!("op-{op}"));
    if imp != model {
        sum.disagreement("software binary32 vs hardware f32", Case::Op(op.into(), a, b).to_json(), &model, &imp);
    }
    // the monotonicity laws the theorem C37_norm assumes of the arithmetic (sampled on the hardware)
    let (x, y) = (f32::from_bits(a), f32::from_bits(b));
    if op == "div" && x.is_finite() && y.is_finite() && y > 0.0 {
        let q = x / y;
        let ok = (y / y == 1.0) && (0.0f32 / y == 0.0) && !q.is_nan()
            && (!(x >= 0.0 && x <= y) || (q >= 0.0 && q <= 1.0));
        if !ok { sum.oracle_violation("ieee-law-div", &format!("{x:e}/{y:e}"), Case::Op(op.into(), a, b).to_json()); }
        sum.branch("law-div-sampled");
    }
    if op == "sub" && x.is_finite() && y.is_finite() {
        // a ≤ b → a - m ≤ b - m with m = min(x,y): (lo - lo) = 0 ≤ hi - lo
        let (lo, hi) = if x <= y { (x, y) } else { (y, x) };
        let ok = (lo - lo == 0.0) && !(hi - lo < 0.0) && !(hi - lo).is_nan();
        if !ok { sum.oracle_violation("ieee-law-sub", &format!("{lo:e},{hi:e}"), Case::Op(op.into(), a, b).to_json()); }
        sum.branch("law-sub-sampled");
    }
    sum.case(&format!("op|{op}|{a}|{b}"), false, || json!({}));
}

// ------------------------------------------------------------------------------------ generators
const SPECIAL: [u32; 22] = [
    0x0000_0000, 0x8000_0000, 0x0000_0001, 0x8000_0001, 0x007F_FFFF, 0x0080_0000, 0x0080_0001, 0x3400_0000, /* EPSILON */
    0x33FF_FFFF, 0x3400_0001, 0x3F80_0000, 0xBF80_0000, 0x3F7F_FFFF, 0x3F80_0001, 0x3F00_0000, 0x7F7F_FFFF, 0xFF7F_FFFF,
    0x7F00_0000, 0x7E80_0000, 0x3D4C_CCCD, /* 0.05 */ 0x4B80_0000, /* 2^24 */ 0x0040_0000,
];

fn any_bits(rng: &mut Rng, allow_nonfinite: bool) -> u32 {
    loop {
        let b = match rng.below(10) {
            0 | 1 => *rng.pick(&SPECIAL),
            2 => { let s = *rng.pick(&SPECIAL); s.wrapping_add(rng.below(5) as u32).wrapping_sub(2) }
            3 => (rng.u64() as u32) & 0x807F_FFFF,                         // subnormals
            4 => 0x3F80_0000u32.wrapping_add((rng.u64() as u32) % 0x0100_0000).wrapping_sub(0x0080_0000), // around 1
            5 if allow_nonfinite => *rng.pick(&[0x7F80_0000u32, 0xFF80_0000, 0x7FC0_0000, 0xFFC0_0000, 0x7F80_0001]),
            _ => rng.u64() as u32,
        };
        let v = f32::from_bits(b);
        if allow_nonfinite || v.is_finite() { return b; }
    }
}

fn dyadic(rng: &mut Rng) -> f32 {
    // few-bit dyadic rationals: sums/differences/products stay exact
    let k = rng.range(0, 16) as f32;
    let d = [1.0f32, 2.0, 4.0, 8.0, 16.0][rng.below(5) as usize];
    k / d
}

fn gen_scores(rng: &mut Rng, n: usize, sum: &mut Summary) -> Vec<f32> {
    let style = rng.below(14);
    let mut v: Vec<f32> = match style {
        0 | 1 => { sum.branch("scores-unit-interval"); (0..n).map(|_| (rng.below(1001) as f32) / 1000.0).collect() }
        2 => { sum.branch("scores-dyadic"); (0..n).map(|_| dyadic(rng)).collect() }
        3 => { sum.branch("scores-bm25-like"); (0..n).map(|_| (rng.below(30000) as f32) / 1000.0).collect() }
        4 => { sum.branch("scores-with-ties"); let pool: Vec<f32> = (0..rng.range(1, 4)).map(|_| (rng.below(101) as f32) / 100.0).collect(); (0..n).map(|_| *rng.pick(&pool)).collect() }
        5 => { sum.branch("scores-signed"); (0..n).map(|_| (rng.i64(-1000, 1000) as f32) / 500.0).collect() }
        6 => {
            // geometric decay with one cliff
            sum.branch("scores-decay-with-cliff");
            let mut x = 1.0f32; let cliff = rng.usize(0, n.max(1) - 1);
            (0..n).map(|i| { let r = x; x *= if i == cliff { 0.3 } else { 0.9 + (rng.below(100) as f32) / 1000.0 }; r }).collect()
        }
        7 => {
            // elbow curve: plateau then low tail
            sum.branch("scores-elbow-curve");
            let knee = rng.usize(0, n.max(1) - 1);
            (0..n).map(|i| if i <= knee { 1.0 - 0.01 * i as f32 } else { 0.5 - 0.005 * i as f32 }).collect()
        }
        8 => { sum.branch("scores-tiny-range"); let base = (rng.below(100) as f32) / 10.0; (0..n).map(|_| base + (rng.below(4) as f32) * f32::EPSILON * 0.5).collect() }
        9 => { sum.branch("scores-finite-extremes"); (0..n).map(|_| *rng.pick(&[f32::MAX, -f32::MAX, f32::MAX / 2.0, -f32::MAX / 2.0, 1e38, -1e38, 3e38, 0.0, 1.0, f32::MIN_POSITIVE, 1e-45, -1e-45, -0.0])).collect() }
        10 => { sum.branch("scores-random-finite-bits"); (0..n).map(|_| f32::from_bits(any_bits(rng, false))).collect() }
        11 => { sum.branch("scores-with-infinity"); (0..n).map(|_| if rng.chance(1, 4) { *rng.pick(&[f32::INFINITY, f32::NEG_INFINITY]) } else { (rng.below(100) as f32) / 100.0 }).collect() }
        12 => { sum.branch("scores-with-nan"); (0..n).map(|_| if rng.chance(1, 4) { f32::NAN } else { f32::from_bits(any_bits(rng, true)) }).collect() }
        _ => { sum.branch("scores-linear"); let step = (rng.below(50) as f32 + 1.0) / 1000.0; (0..n).map(|i| 1.0 - step * i as f32).collect() }
    };
    // mostly sorted descending (what the search pipeline produces), sometimes unsorted
    if style != 12 && style != 6 && style != 7 && rng.chance(2, 3) {
        v.sort_by(|a, b| b.partial_cmp(a).unwrap_or(std::cmp::Ordering::Equal));
        sum.branch("order-sorted-descending");
    } else {
        sum.branch("order-as-generated");
    }
    v
}

fn gen_param(rng: &mut Rng, scores: &[f32], eff: &[f32], nan_ok: bool) -> f32 {
    match rng.below(12) {
        0..=3 => (rng.below(101) as f32) / 100.0,
        4 => dyadic(rng) / 4.0,
        5 if !eff.is_empty() => *rng.pick(eff),                  // exactly a (normalised) score: `<` boundary
        6 if !scores.is_empty() => *rng.pick(scores),
        7 => *rng.pick(&[0.0f32, -0.0, 1.0, -1.0, 2.0, 0.5, 1e-7, f32::EPSILON, 100.0, -0.3, f32::MAX, -f32::MAX, f32::MIN_POSITIVE]),
        8 if nan_ok => *rng.pick(&[f32::NAN, f32::INFINITY, f32::NEG_INFINITY]),
        9 => f32::from_bits(any_bits(rng, false)),
        _ => (rng.below(2001) as f32) / 1000.0 - 0.5,
    }
}

fn gen_cut(rng: &mut Rng, thorough: bool, sum: &mut Summary) -> Cut {
    let maxn = if thorough { 200 } else { 40 };
    let n = match rng.below(10) { 0 => rng.usize(0, 3), 1 | 2 => rng.usize(2, 6), 3 => rng.usize(maxn / 2, maxn), _ => rng.usize(3, 24) };
    let scores = gen_scores(rng, n, sum);
    let min_results = match rng.below(10) {
        0 => 0, 1 | 2 | 3 => 1,
        4 => n.saturating_sub(1), 5 => n, 6 => n + 1 + rng.usize(0, 3), 7 => n.saturating_sub(2),
        _ => rng.usize(0, n.max(1)),
    };
    let normalize = rng.chance(2, 3);
    let nan_ok = scores.iter().any(|v| !v.is_finite());
    let eff: Vec<f32> = if normalize { normalize_scores(&scores) } else { scores.clone() };
    let strat = match rng.below(11) {
        0 | 1 => Strat::Abs(gen_param(rng, &scores, &eff, nan_ok)),
        2 | 3 => Strat::Rel(gen_param(rng, &scores, &eff, nan_ok)),
        4 | 5 => {
            // often exactly one of the drop ratios of the list (boundary of `>`)
            if eff.len() >= 2 && rng.chance(1, 3) {
                let i = rng.usize(1, eff.len() - 1);
                Strat::Cliff((eff[i - 1] - eff[i]) / eff[i - 1])
            } else { Strat::Cliff(gen_param(rng, &scores, &eff, nan_ok)) }
        }
        6 | 7 => Strat::Elbow(match rng.below(6) { 0 => 1.0, 1 => 0.0, 2 => -1.0, 3 => (rng.below(400) as f32) / 100.0, 4 => 20.0 + rng.below(100) as f32, _ => gen_param(rng, &scores, &eff, nan_ok) }),
        8 | 9 => Strat::Comb(gen_param(rng, &scores, &eff, nan_ok), gen_param(rng, &scores, &eff, nan_ok), gen_param(rng, &scores, &eff, nan_ok)),
        _ => Strat::Default,
    };
    Cut { scores, normalize, min_results, strat }
}

fn corpus() -> Vec<Case> {
    let c = |scores: &[f32], normalize: bool, min_results: usize, strat: Strat| Case::Cut(Cut { scores: scores.to_vec(), normalize, min_results, strat });
    let mut v = vec![
        // the known finding: the range max - min overflows, the maximum is mapped to NaN
        c(&[f32::MAX, 0.0, -f32::MAX], true, 1, Strat::Abs(0.5)),
        c(&[f32::MAX, 0.0, -f32::MAX], true, 1, Strat::Default),
        c(&[2e38, -2e38], true, 0, Strat::Rel(0.5)),
        // the repository's unit tests
        c(&[1.0, 0.8, 0.6, 0.4, 0.2], true, 1, Strat::Default),
        c(&[0.95, 0.88, 0.75, 0.60, 0.45, 0.30, 0.15], true, 1, Strat::Abs(0.5)),
        c(&[1.0, 0.9, 0.8, 0.5, 0.3, 0.1], true, 1, Strat::Rel(0.6)),
        c(&[1.0, 0.95, 0.9, 0.85, 0.8, 0.3, 0.25, 0.2], true, 1, Strat::Cliff(0.4)),
        c(&[0.95, 0.90, 0.85, 0.80, 0.75, 0.40, 0.35, 0.30], true, 1, Strat::Comb(0.5, 0.3, 0.3)),
        c(&[1.0, 0.95, 0.90, 0.85, 0.80, 0.50, 0.48, 0.46, 0.44, 0.42], true, 1, Strat::Elbow(1.0)),
        c(&[1.0, 0.1, 0.05, 0.01], true, 3, Strat::Abs(0.9)),
        c(&[], true, 1, Strat::Default),
        c(&[0.92, 0.89, 0.87, 0.85, 0.84, 0.82, 0.80, 0.79, 0.78, 0.76, 0.75, 0.74, 0.45, 0.40, 0.35, 0.30, 0.25], true, 1, Strat::Comb(0.5, 0.35, 0.4)),
        // edges: elbow index arithmetic
        c(&[1.0, 0.5, 0.0], true, 0, Strat::Elbow(1.0)),
        c(&[1.0, 0.5, 0.0], true, 2, Strat::Elbow(1.0)),
        c(&[1.0, 0.5, 0.0], true, 2, Strat::Elbow(-1.0)),
        c(&[1.0, 0.1, 0.05, 0.0], true, 0, Strat::Elbow(-1.0)),
        c(&[1.0, 1.0, 1.0, 0.0, 0.0], false, 1, Strat::Elbow(1.0)),
        c(&[1.0, 1.0], true, 0, Strat::Elbow(1.0)),
        c(&[0.5, 0.5, 0.5, 0.5], true, 1, Strat::Elbow(1.0)),
        // min_results vs n
        c(&[1.0, 0.0], true, 2, Strat::Abs(0.5)),
        c(&[1.0, 0.0], true, 5, Strat::Abs(0.5)),
        c(&[1.0, 0.0], true, 0, Strat::Abs(2.0)),
        c(&[0.0, 1.0], false, 0, Strat::Rel(0.5)),
        c(&[0.2, 1.0, 0.1], false, 1, Strat::Rel(0.5)),
        c(&[1.0, 0.5, 0.5, 0.25], false, 1, Strat::Abs(0.5)),
        c(&[1.0, 0.5, 0.25], false, 0, Strat::Cliff(0.5)),
        c(&[1.0, 0.5, 0.24], false, 0, Strat::Cliff(0.5)),
        c(&[-1.0, -2.0, -4.0], false, 1, Strat::Cliff(0.1)),
        c(&[1.0, 0.5, 0.1], false, 0, Strat::Comb(0.5, 0.9, 0.2)),
        c(&[f32::NAN, 1.0, 0.5], true, 1, Strat::Default),
        c(&[f32::INFINITY, 1.0, 0.5], true, 1, Strat::Default),
    ];
    for (op, a, b) in [("add", 0x3F80_0000u32, 0x3380_0000u32), ("add", 0x3F80_0000, 0x3400_0000), ("sub", 0x7F7F_FFFF, 0xFF7F_FFFF),
        ("mul", 0x0080_0000, 0x3F00_0000), ("mul", 0x0000_0003, 0x3F00_0000), ("div", 0x3F80_0000, 0x4040_0000), ("div", 0, 0),
        ("div", 0x3F80_0000, 0), ("sqrt", 0x4000_0000, 0), ("sqrt", 0x8000_0000, 0), ("sqrt", 0xBF80_0000, 0), ("sqrt", 1, 0),
        ("ofnat", 16_777_217, 0), ("ofnat", 16_777_219, 0), ("ofnat", 0xFFFF_FFFF, 0), ("lt", 0, 0x8000_0000), ("lt", 0x7FC0_0000, 0),
        ("add", 0x8000_0000, 0x8000_0000), ("add", 0x8000_0000, 0), ("sub", 0x3F80_0000, 0x3F80_0000), ("mul", 0x7F7F_FFFF, 0x3F80_0001)] {
        v.push(Case::Op(op.into(), a, b));
    }
    v
}

fn run_case(case: &Case, drv: &mut Option<Driver>, sum: &mut Summary, known: &[String], verbose: bool) {
    match case {
        Case::Cut(c) => run_cut(c, drv, sum, known, verbose),
        Case::Op(op, a, b) => run_op(op, *a, *b, drv, sum, verbose),
    }
}

fn main() {
    let args = parse_args();
    let mut drv = if args.driver.as_os_str() == "none" { None } else { Some(Driver::spawn(&args.driver).expect("spawn driver")) };
    let known: Vec<String> = args.extra.get("known").map(|s| s.split(',').map(|x| x.to_string()).collect()).unwrap_or_default();
    let mut sum = Summary::new("C37", &args,
        "score lists of 0..40 (quick) / 0..200 (thorough) f32 (unit-interval, dyadic, BM25-like, ties, signed, decay+cliff, elbow \
         curves, tiny ranges, finite extremes, random bit patterns, with ±inf, with NaN; 2/3 sorted descending), min_results around \
         0/1/n-1/n/n+k, every strategy with parameters incl. boundary values equal to a score / a drop ratio; each case compared \
         bit-exactly with the Lean model (cut-off index, trigger kind, normalised bit patterns); plus single f32 operations \
         (software binary32 vs hardware). non-trivial = the cut-off is before the end of the list; distinct = config+scores+result");
    sum.expect_branches(&["trigger-no_results", "trigger-min_results", "trigger-absolute_threshold", "trigger-no_cutoff",
        "trigger-score_cliff", "trigger-too_few_points", "trigger-elbow_detection", "trigger-no_significant_elbow",
        "trigger-absolute_min", "trigger-relative_threshold", "cut-at-min-results", "cut-at-n-minus-1", "threshold-cut-inside",
        "threshold-kept-score-equals-threshold", "normalize-scaled", "normalize-flat", "normalize-range-overflow",
        "input-with-nan", "input-with-infinity", "n-le-min-results", "op-add", "op-sub", "op-mul", "op-div", "op-sqrt", "op-lt", "op-ofnat"]);
    if args.mode == "replay" {
        let case = load_replay(args.replay_file.as_ref().expect("replay file"));
        let input = case.get("input").unwrap_or(&case);
        let c = Case::from_json(input);
        run_case(&c, &mut drv, &mut sum, &known, true);
        sum.finish(&args);
    }
    let mut rng = Rng::new(args.seed);
    for c in corpus() { run_case(&c, &mut drv, &mut sum, &known, false); }
    let (n_cut, n_op) = if args.thorough { (400_000, 1_000_000) } else { (40_000, 100_000) };
    for _ in 0..n_op {
        let op = *rng.pick(&["add", "sub", "mul", "div", "sqrt", "lt", "add", "sub", "mul", "div", "ofnat", "abs"]);
        let (a, b) = if op == "ofnat" {
            ((match rng.below(4) { 0 => rng.below(300), 1 => (1u64 << rng.range(20, 31)) + rng.below(9), _ => rng.u64() & 0xFFFF_FFFF }) as u32, 0)
        } else {
            let a = any_bits(&mut rng, true);
            // related operands exercise cancellation / ties far more often than independent ones
            let b = match rng.below(4) { 0 => a ^ (1 << rng.below(32)), 1 => a.wrapping_add(rng.below(4) as u32), _ => any_bits(&mut rng, true) };
            (a, b)
        };
        run_op(op, a, b, &mut drv, &mut sum, false);
    }
    for _ in 0..n_cut {
        let c = gen_cut(&mut rng, args.thorough, &mut sum);
        run_cut(&c, &mut drv, &mut sum, &known, false);
    }
    if let Some(d) = &drv { sum.model_requests = d.requests; }
    sum.finish(&args);
}
