/-
  C36 helper development, part 4: the pass lemma.  If a `replace_all` pass creates no word boundary
  (`passSafeGo`), then a match of `q` in its output comes from a match of `q` at a gap position of its
  input (`gapMatch`), provided the replacement token is inert for `q`.
-/
import MvProps.C36Lemmas
namespace Mv.Regex

/-- the token is inert for `q`: first/last code points are non-word and rejected by every class of `q`,
    and `q` matches nowhere inside the token -/
structure Inert (T : Tables) (q : Re) (tok : List Nat) (th tl : Nat) (tt : List Nat) : Prop where
  htok : tok = th :: tt
  hlast : lastOpt tok none = some tl
  hth : rejects T th q = true
  htl : rejects T tl q = true
  hthw : T.isWord th = false
  htlw : T.isWord tl = false
  hin : isMatch T q tok = false

theorem isSome_elim {α : Type} {o : Option α} (h : o.isSome = true) : ∃ x, o = some x := by
  cases o with
  | none => cases h
  | some x => exact ⟨x, rfl⟩

theorem gap_of_out (T : Tables) (q r : Re) (tok : List Nat) (th tl : Nat) (tt : List Nat)
    (hqwf : q.wf = true) (hqn : q.nullable = false) (hr : r.nullable = false)
    (hi : Inert T q tok th tl tt) :
    ∀ (n : Nat) (s : List Nat), s.length ≤ n → ∀ (po p : Option Nat),
      anyMatch T q po (replaceGo T r tok p s 0) = true → passSafeGo T r p s 0 = true → CtxRel T po p s →
      gapMatch T q r p s 0 = true := by
  intro n
  induction n with
  | zero =>
    intro s hlen po p hany _ _
    have : s = [] := List.eq_nil_of_length_eq_zero (by omega)
    subst this
    simp only [replaceGo, anyMatch] at hany
    obtain ⟨rest, hm⟩ := isSome_elim hany
    obtain ⟨w, hs, hL⟩ := matchAt_sound T q po [] rest hm
    have hw := L_nonnull T q _ _ _ hL hqn
    have : w = [] := by
      cases w with
      | nil => rfl
      | cons x xs => simp at hs
    exact absurd this hw
  | succ n ih =>
    intro s hlen po p hany hsafe hctx
    cases s with
    | nil =>
      simp only [replaceGo, anyMatch] at hany
      obtain ⟨rest, hm⟩ := isSome_elim hany
      obtain ⟨w, hs, hL⟩ := matchAt_sound T q po [] rest hm
      have hw := L_nonnull T q _ _ _ hL hqn
      have : w = [] := by
        cases w with
        | nil => rfl
        | cons x xs => simp at hs
      exact absurd this hw
    | cons c cs =>
      have hlen' : cs.length ≤ n := by simp only [List.length_cons] at hlen; omega
      cases hm : matchAt T r p (c :: cs) with
      | none =>
        have hout : replaceGo T r tok p (c :: cs) 0 = c :: replaceGo T r tok (some c) cs 0 := by
          simp [replaceGo, hm]
        have hsafe' : passSafeGo T r (some c) cs 0 = true := by simpa [passSafeGo, hm] using hsafe
        have hgap : gapMatch T q r p (c :: cs) 0
            = ((matchAt T q p (c :: cs)).isSome || gapMatch T q r (some c) cs 0) := by
          simp [gapMatch, hm]
        rw [hgap, Bool.or_eq_true]
        rw [hout] at hany
        simp only [anyMatch, Bool.or_eq_true] at hany
        rcases hany with hany | hany
        · -- a q-match starts here in the output: move it to the input
          left
          obtain ⟨ro, hmq⟩ := isSome_elim hany
          obtain ⟨w, hs, hL⟩ := matchAt_sound T q po _ ro hmq
          have hw := L_nonnull T q _ _ _ hL hqn
          have hthw : th ∉ w := L_rejects T th q _ _ _ hL hi.hth
          rw [← hout] at hs
          obtain ⟨ri, hsi, hro, hsafei⟩ := out_prefix T r tok hr th tt hi.htok w p (c :: cs) ro hs hthw hsafe
          have hL' : L T q (isWordOpt T p) w (isWordOpt T ri.head?) := by
            apply L_ctx T q _ _ _ _ _ hL
            constructor
            · -- left edge
              intro hb
              rcases hctx with he | ⟨he1, he2⟩
              · rw [← he]
                rw [firstW_ne_nil T w hw _ (isWordOpt T ro.head?)]
                exact hb
              · have hf : firstW T w (isWordOpt T ri.head?) = false := by
                  rw [firstW_head, ← hsi]; exact he2
                rw [firstW_ne_nil T w hw _ (isWordOpt T ri.head?), hf, he1] at hb
                cases hb
            · -- right edge
              intro hb
              rw [lastW_ne_nil T w hw _ (isWordOpt T p), lastW_lastOpt]
              rw [lastW_lastOpt, lastOpt_ne_nil w hw po p, hro] at hb
              exact head_rel T r tok hr th tt hi.htok hi.hthw (lastOpt w p) ri hsafei hb
          have := matchAt_complete T q hqwf p w ri hL'
          rw [hsi]
          exact this
        · right
          exact ih cs hlen' (some c) (some c) hany hsafe' (Or.inl rfl)
      | some rest =>
        obtain ⟨w, hw, hs, hLr, hout, hsafeq, hgapq⟩ := step_match T q r tok hr p (c :: cs) rest hm
        rw [hgapq]
        rw [hsafeq] at hsafe
        simp only [Bool.and_eq_true, Bool.not_eq_true', Bool.and_eq_false_iff] at hsafe
        obtain ⟨⟨_, hend⟩, hsafe2⟩ := hsafe
        have hrestlen : rest.length ≤ n := by
          have h1 : (c :: cs).length = w.length + rest.length := by rw [hs, List.length_append]
          have h2 : 0 < w.length := List.length_pos_iff.mpr hw
          simp only [List.length_cons] at hlen h1
          omega
        have htokne : tok ≠ [] := by rw [hi.htok]; simp
        rw [hout] at hany
        rcases anyMatch_append T q tok _ po hany with ⟨a1, a2, hsplit, ha2, hmq⟩ | hany2
        · -- a q-match would start inside the token: impossible
          exfalso
          obtain ⟨ro, hmq'⟩ := isSome_elim hmq
          obtain ⟨w', hs', hL'⟩ := matchAt_sound T q _ _ ro hmq'
          have hw' := L_nonnull T q _ _ _ hL' hqn
          have hnth : th ∉ w' := L_rejects T th q _ _ _ hL' hi.hth
          have hntl : tl ∉ w' := L_rejects T tl q _ _ _ hL' hi.htl
          -- tl is in a2
          have htl2 : tl ∈ a2 := by
            obtain ⟨l, hl1, hl2⟩ := lastOpt_mem a2 ha2 (lastOpt a1 none)
            have : lastOpt tok none = lastOpt a2 (lastOpt a1 none) := by rw [hsplit, lastOpt_append]
            rw [hi.hlast, hl1] at this
            cases this
            exact hl2
          rcases List.append_eq_append_iff.mp hs' with ⟨c', h1, _⟩ | ⟨a', h1, h2⟩
          · -- w' = a2 ++ c'
            rw [h1] at hntl
            exact hntl (List.mem_append_left _ htl2)
          · -- a2 = w' ++ a'
            cases a' with
            | nil =>
              rw [List.append_nil] at h1
              rw [h1] at htl2
              exact hntl htl2
            | cons y ys =>
              cases a1 with
              | nil =>
                -- the match starts with the token's first code point
                rw [List.nil_append] at hsplit
                cases w' with
                | nil => exact hw' rfl
                | cons x xs =>
                  rw [hi.htok, h1] at hsplit
                  simp only [List.cons_append, List.cons.injEq] at hsplit
                  exact hnth (by rw [hsplit.1]; exact List.mem_cons_self ..)
              | cons z zs =>
                -- strictly inside the token
                have hctxL : lastOpt (z :: zs) po = lastOpt (z :: zs) none := lastOpt_ne_nil _ (by simp) _ _
                have hLt : L T q (isWordOpt T (lastOpt (z :: zs) none)) w' (isWordOpt T (y :: ys).head?) := by
                  rw [← hctxL]
                  have : ro.head? = (y :: ys).head? := by rw [h2]; rfl
                  rw [← this]
                  exact hL'
                have h3 := matchAt_complete T q hqwf _ w' (y :: ys) hLt
                have h4 := anyMatch_suffix T q (z :: zs) (w' ++ (y :: ys)) none h3
                have : tok = (z :: zs) ++ (w' ++ (y :: ys)) := by rw [hsplit, h1]
                have h5 : isMatch T q tok = true := by rw [this]; exact h4
                rw [hi.hin] at h5
                cases h5
        · -- the q-match is after the token
          have hlt : lastOpt tok po = some tl := by
            rw [lastOpt_ne_nil tok htokne po none]; exact hi.hlast
          rw [hlt] at hany2
          apply ih rest hrestlen (some tl) (lastOpt w p) hany2 hsafe2
          have hz : isWordOpt T (some tl) = false := hi.htlw
          rcases hend with h1 | h1
          · left; rw [hz, h1]
          · right; exact ⟨hz, h1⟩

theorem gapMatch_anyMatch (T : Tables) (q r : Re) (hr : r.nullable = false) :
    ∀ (n : Nat) (s : List Nat), s.length ≤ n → ∀ p, gapMatch T q r p s 0 = true → anyMatch T q p s = true := by
  intro n
  induction n with
  | zero =>
    intro s hlen p h
    have : s = [] := List.eq_nil_of_length_eq_zero (by omega)
    subst this
    simp [gapMatch] at h
  | succ n ih =>
    intro s hlen p h
    cases s with
    | nil => simp [gapMatch] at h
    | cons c cs =>
      have hlen' : cs.length ≤ n := by simp only [List.length_cons] at hlen; omega
      cases hm : matchAt T r p (c :: cs) with
      | none =>
        simp only [gapMatch, hm, Bool.or_eq_true] at h
        simp only [anyMatch, Bool.or_eq_true]
        rcases h with h | h
        · exact Or.inl h
        · exact Or.inr (ih cs hlen' _ h)
      | some rest =>
        obtain ⟨w, hw, hs, _, _, _, hgapq⟩ := step_match T q r [] hr p (c :: cs) rest hm
        rw [hgapq] at h
        have hrestlen : rest.length ≤ n := by
          have h1 : (c :: cs).length = w.length + rest.length := by rw [hs, List.length_append]
          have h2 : 0 < w.length := List.length_pos_iff.mpr hw
          simp only [List.length_cons] at hlen h1
          omega
        rw [hs]
        exact anyMatch_append_right T q w rest p (ih rest hrestlen _ h)

theorem gapMatch_self (T : Tables) (r : Re) (hr : r.nullable = false) :
    ∀ (n : Nat) (s : List Nat), s.length ≤ n → ∀ p, gapMatch T r r p s 0 = false := by
  intro n
  induction n with
  | zero =>
    intro s hlen p
    have : s = [] := List.eq_nil_of_length_eq_zero (by omega)
    subst this
    rfl
  | succ n ih =>
    intro s hlen p
    cases s with
    | nil => rfl
    | cons c cs =>
      have hlen' : cs.length ≤ n := by simp only [List.length_cons] at hlen; omega
      cases hm : matchAt T r p (c :: cs) with
      | none => simp [gapMatch, hm, ih cs hlen']
      | some rest =>
        obtain ⟨w, hw, hs, _, _, _, hgapq⟩ := step_match T r r [] hr p (c :: cs) rest hm
        rw [hgapq]
        have hrestlen : rest.length ≤ n := by
          have h1 : (c :: cs).length = w.length + rest.length := by rw [hs, List.length_append]
          have h2 : 0 < w.length := List.length_pos_iff.mpr hw
          simp only [List.length_cons] at hlen h1
          omega
        exact ih rest hrestlen _

/-- **a boundary-safe pass creates no match** of a pattern for which its token is inert -/
theorem pass_no_new_match (T : Tables) (q r : Re) (tok : List Nat) (th tl : Nat) (tt : List Nat)
    (hqwf : q.wf = true) (hqn : q.nullable = false) (hr : r.nullable = false) (hi : Inert T q tok th tl tt)
    (s : List Nat) (hsafe : passSafe T r s = true) (h : isMatch T q (replaceAll T r tok s) = true) :
    isMatch T q s = true :=
  gapMatch_anyMatch T q r hr s.length s (Nat.le_refl _) none
    (gap_of_out T q r tok th tl tt hqwf hqn hr hi s.length s (Nat.le_refl _) none none h hsafe (Or.inl rfl))

/-- **a boundary-safe pass removes every match of its own pattern** -/
theorem pass_removes_own (T : Tables) (r : Re) (tok : List Nat) (th tl : Nat) (tt : List Nat)
    (hrwf : r.wf = true) (hr : r.nullable = false) (hi : Inert T r tok th tl tt)
    (s : List Nat) (hsafe : passSafe T r s = true) : isMatch T r (replaceAll T r tok s) = false := by
  cases h : isMatch T r (replaceAll T r tok s) with
  | false => rfl
  | true =>
    have h1 := gap_of_out T r r tok th tl tt hrwf hr hr hi s.length s (Nat.le_refl _) none none h hsafe (Or.inl rfl)
    rw [gapMatch_self T r hr s.length s (Nat.le_refl _) none] at h1
    cases h1

end Mv.Regex

/-!
  ## part 5: patterns that begin and end with `\b` never create a boundary; the multi-pass induction
-/
namespace Mv.Regex

/-- syntactically begins with `\b` -/
def startsB : Re → Bool
  | .wordB => true
  | .cat a _ => startsB a
  | .alt a b => startsB a && startsB b
  | _ => false

/-- syntactically ends with `\b` -/
def endsB : Re → Bool
  | .wordB => true
  | .cat _ b => endsB b
  | .alt a b => endsB a && endsB b
  | _ => false

theorem L_startsB (T : Tables) (r : Re) : ∀ lw w rw, L T r lw w rw → startsB r = true →
    (lw != firstW T w rw) = true := by
  induction r with
  | eps => intro _ _ _ _ h; cases h
  | cls k => intro _ _ _ _ h; cases h
  | wordB => intro lw w rw h _; obtain ⟨rfl, hb⟩ := h; exact hb
  | cat a b iha _ =>
    intro lw w rw h hs
    obtain ⟨u, v, rfl, ha, _⟩ := h
    rw [firstW_append]
    exact iha _ _ _ ha hs
  | alt a b iha ihb =>
    intro lw w rw h hs
    simp only [startsB, Bool.and_eq_true] at hs
    cases h with
    | inl h1 => exact iha _ _ _ h1 hs.1
    | inr h1 => exact ihb _ _ _ h1 hs.2
  | rep a lo hi _ => intro _ _ _ _ h; cases h

theorem L_endsB (T : Tables) (r : Re) : ∀ lw w rw, L T r lw w rw → endsB r = true →
    (lastW T w lw != rw) = true := by
  induction r with
  | eps => intro _ _ _ _ h; cases h
  | cls k => intro _ _ _ _ h; cases h
  | wordB => intro lw w rw h _; obtain ⟨rfl, hb⟩ := h; exact hb
  | cat a b _ ihb =>
    intro lw w rw h hs
    obtain ⟨u, v, rfl, _, hb⟩ := h
    rw [lastW_append]
    exact ihb _ _ _ hb hs
  | alt a b iha ihb =>
    intro lw w rw h hs
    simp only [endsB, Bool.and_eq_true] at hs
    cases h with
    | inl h1 => exact iha _ _ _ h1 hs.1
    | inr h1 => exact ihb _ _ _ h1 hs.2
  | rep a lo hi _ => intro _ _ _ _ h; cases h

theorem not_and_of_bne {a b : Bool} (h : (a != b) = true) : (!(a && b)) = true := by
  cases a <;> cases b <;> simp_all

/-- a pass whose pattern begins and ends with `\b` never creates a word boundary -/
theorem passSafeGo_of_anchored (T : Tables) (r : Re) (hr : r.nullable = false)
    (hs : startsB r = true) (he : endsB r = true) :
    ∀ (n : Nat) (s : List Nat), s.length ≤ n → ∀ p, passSafeGo T r p s 0 = true := by
  intro n
  induction n with
  | zero =>
    intro s hlen p
    have : s = [] := List.eq_nil_of_length_eq_zero (by omega)
    subst this
    rfl
  | succ n ih =>
    intro s hlen p
    cases s with
    | nil => rfl
    | cons c cs =>
      have hlen' : cs.length ≤ n := by simp only [List.length_cons] at hlen; omega
      cases hm : matchAt T r p (c :: cs) with
      | none => simp [passSafeGo, hm, ih cs hlen']
      | some rest =>
        obtain ⟨w, hw, hsw, hL, _, hsafeq, _⟩ := step_match T r r [] hr p (c :: cs) rest hm
        rw [hsafeq]
        have hrestlen : rest.length ≤ n := by
          have h1 : (c :: cs).length = w.length + rest.length := by rw [hsw, List.length_append]
          have h2 : 0 < w.length := List.length_pos_iff.mpr hw
          simp only [List.length_cons] at hlen h1
          omega
        have h1 := L_startsB T r _ _ _ hL hs
        rw [firstW_head, ← hsw] at h1
        have h2 := L_endsB T r _ _ _ hL he
        rw [lastW_lastOpt] at h2
        rw [not_and_of_bne h1, not_and_of_bne h2, ih rest hrestlen]
        rfl

theorem passSafe_of_anchored (T : Tables) (r : Re) (hr : r.nullable = false)
    (hs : startsB r = true) (he : endsB r = true) (s : List Nat) : passSafe T r s = true :=
  passSafeGo_of_anchored T r hr hs he s.length s (Nat.le_refl _) none

end Mv.Regex

namespace Mv.Pii
open Mv.Regex

/-- executable form of `Inert` -/
def inertB (T : Tables) (q : Re) (tok : List Nat) : Bool :=
  match tok, lastOpt tok none with
  | th :: _, some tl => rejects T th q && rejects T tl q && !T.isWord th && !T.isWord tl && !isMatch T q tok
  | _, _ => false

theorem inertB_sound (T : Tables) (q : Re) (tok : List Nat) (h : inertB T q tok = true) :
    ∃ th tl tt, Inert T q tok th tl tt := by
  unfold inertB at h
  cases tok with
  | nil => simp at h
  | cons th tt =>
    cases hl : lastOpt (th :: tt) none with
    | none => rw [hl] at h; simp at h
    | some tl =>
      rw [hl] at h
      simp only [Bool.and_eq_true, Bool.not_eq_true'] at h
      exact ⟨th, tl, tt, ⟨rfl, hl, h.1.1.1.1, h.1.1.1.2, h.1.1.2, h.1.2, h.2⟩⟩

/-- every pattern is well-formed and non-nullable, and every token is inert for every pattern -/
def passesOKB (T : Tables) (passes : List (Re × List Nat)) : Bool :=
  passes.all (fun p => p.1.wf && !p.1.nullable && passes.all (fun t => inertB T p.1 t.2))

def PassesOK (T : Tables) (passes : List (Re × List Nat)) : Prop :=
  ∀ p ∈ passes, p.1.wf = true ∧ p.1.nullable = false ∧ ∀ t ∈ passes, ∃ th tl tt, Inert T p.1 t.2 th tl tt

theorem passesOKB_sound (T : Tables) (passes : List (Re × List Nat)) (h : passesOKB T passes = true) :
    PassesOK T passes := by
  intro p hp
  simp only [passesOKB, List.all_eq_true, Bool.and_eq_true, Bool.not_eq_true'] at h
  obtain ⟨⟨h1, h2⟩, h3⟩ := h p hp
  exact ⟨h1, h2, fun t ht => inertB_sound T p.1 t.2 (h3 t ht)⟩

/-- after boundary-safe passes no pattern of the family matches, if it did not match before or has its
    own pass among them -/
theorem maskWith_clean (T : Tables) (all : List (Re × List Nat)) (hok : PassesOK T all) :
    ∀ (passes : List (Re × List Nat)), (∀ p ∈ passes, p ∈ all) → ∀ (s : List Nat),
      safeWith T passes s = true → ∀ (q : Re) (tq : List Nat), (q, tq) ∈ all →
      (isMatch T q s = false ∨ ∃ t, (q, t) ∈ passes) → isMatch T q (maskWith T passes s) = false := by
  intro passes
  induction passes with
  | nil =>
    intro _ s _ q tq _ h
    rcases h with h | ⟨t, ht⟩
    · exact h
    · cases ht
  | cons p ps ih =>
    intro hsub s hsafe q tq hq h
    obtain ⟨r, tok⟩ := p
    simp only [safeWith, Bool.and_eq_true] at hsafe
    have hrall : (r, tok) ∈ all := hsub _ (List.mem_cons_self ..)
    obtain ⟨hrwf, hrn, hrin⟩ := hok (r, tok) hrall
    obtain ⟨hqwf, hqn, hqin⟩ := hok (q, tq) hq
    have hstep : maskWith T ((r, tok) :: ps) s = maskWith T ps (replaceAll T r tok s) := rfl
    rw [hstep]
    apply ih (fun p hp => hsub p (List.mem_cons_of_mem _ hp)) _ hsafe.2 q tq hq
    have hnew : isMatch T q s = false → isMatch T q (replaceAll T r tok s) = false := by
      intro h0
      obtain ⟨th, tl, tt, hi⟩ := hqin (r, tok) hrall
      cases h1 : isMatch T q (replaceAll T r tok s) with
      | false => rfl
      | true =>
        have := pass_no_new_match T q r tok th tl tt hqwf hqn hrn hi s hsafe.1 h1
        rw [h0] at this
        cases this
    rcases h with h | ⟨t, ht⟩
    · exact Or.inl (hnew h)
    · rcases List.mem_cons.mp ht with heq | hin
      · left
        have hqr : q = r := congrArg Prod.fst heq
        subst hqr
        obtain ⟨th, tl, tt, hi⟩ := hrin (q, tok) hrall
        exact pass_removes_own T q tok th tl tt hrwf hrn hi s hsafe.1
      · exact Or.inr ⟨t, hin⟩

/-- `safeWith` only has to look at passes whose pattern is not `\b…\b` -/
def safeWithU (T : Tables) : List (Re × List Nat) → List Nat → Bool
  | [], _ => true
  | p :: ps, s => ((startsB p.1 && endsB p.1) || passSafe T p.1 s) && safeWithU T ps (replaceAll T p.1 p.2 s)

theorem safeWith_eq_U (T : Tables) : ∀ (passes : List (Re × List Nat)), (∀ p ∈ passes, p.1.nullable = false) →
    ∀ s, safeWith T passes s = safeWithU T passes s
  | [], _, _ => rfl
  | p :: ps, hn, s => by
    simp only [safeWith, safeWithU]
    rw [safeWith_eq_U T ps (fun q hq => hn q (List.mem_cons_of_mem _ hq))]
    cases hb : (startsB p.1 && endsB p.1) with
    | false => simp
    | true =>
      simp only [Bool.and_eq_true] at hb
      rw [passSafe_of_anchored T p.1 (hn p (List.mem_cons_self ..)) hb.1 hb.2]
      simp

end Mv.Pii
