/-
  Model of `/repo/src/types/sketch_track.rs`:
    * the 3-position Bloom-like term filter (`build_term_filter`, `term_filter_maybe_contains`),
    * sketch generation (`tokenize_for_sketch` for ASCII input, `compute_token_weights`,
      `compute_simhash`, `extract_top_terms`, `generate_sketch`),
    * the in-memory track (`SketchTrack::insert`/`iter`) and its binary codec
      (`SketchTrackHeader`, `to_small_bytes`/`to_medium_bytes`, `from_small_bytes`/
      `from_medium_bytes`, `write_sketch_track`, `read_sketch_track`).

  Conventions: numbers are `Nat` (the Rust field widths are range hypotheses of the theorems),
  text and tokens are UTF-8 byte strings, the token hash (`hash_token` = first 8 bytes of
  blake3, little endian) and the weight function (floats when an IDF map is given) are
  parameters.  Arithmetic that panics in the debug profile (`% 0`, `u32` sum overflow, the
  `u64` multiplication/addition in the reader) is explicit: `none` / `RErr.panic*`.
  Every size, flag, shift and threshold comes from the source via `tools/gen/C39.py`.
-/
import MvModel.Bytes
import MvModel.Gen.C39
namespace Mv.Sketch
open Mv.Gen.C39

/-! ### constants (regenerated from the source on every run) -/

def MAGIC : Bytes := SKETCH_TRACK_MAGIC
def VERSION : Nat := SKETCH_TRACK_VERSION
def HDR : Nat := HEADER_SIZE
def FS : Nat := TERM_FILTER_SIZE_SMALL
def FM : Nat := TERM_FILTER_SIZE_MEDIUM
def FL : Nat := TERM_FILTER_SIZE_LARGE
def TS : Nat := TOP_TERMS_COUNT_SMALL
def TM : Nat := TOP_TERMS_COUNT_MEDIUM
def TL : Nat := TOP_TERMS_COUNT_LARGE
def ES : Nat := ENTRY_SIZE_SMALL
def EM : Nat := ENTRY_SIZE_MEDIUM
def EL : Nat := ENTRY_SIZE_LARGE

/-- the layout facts the codec model relies on; stops elaborating if a source constant moves -/
theorem layout_ok :
    MAGIC.length = 4 ∧ HDR = 4 + 2 + 2 + 8 + 4 + 4 ∧
    ES = 8 + FS + 4 * TS ∧ EM = 8 + FM + 4 * TM + 2 + 2 + 2 + 2 ∧ EM ≤ EL ∧
    ES ≠ EM ∧ ES ≠ EL ∧ EM ≠ EL ∧ EL < 65536 ∧
    0 < FS ∧ 0 < FM ∧ 0 < FL ∧
    FLAGS_ALL = HAS_SIMHASH + HAS_TERM_FILTER + HAS_TOP_TERMS := by decide

theorem MAGIC_eq : MAGIC = [0x4D, 0x56, 0x53, 0x4B] := by decide
theorem VERSION_eq : VERSION = 1 := by decide
theorem HDR_eq : HDR = 24 := by decide
theorem FS_eq : FS = 16 := by decide
theorem FM_eq : FM = 32 := by decide
theorem FL_eq : FL = 64 := by decide
theorem TS_eq : TS = 2 := by decide
theorem TM_eq : TM = 4 := by decide
theorem TL_eq : TL = 6 := by decide
theorem ES_eq : ES = 32 := by decide
theorem EM_eq : EM = 64 := by decide
theorem EL_eq : EL = 96 := by decide
theorem FLAGS_ALL_eq : FLAGS_ALL = 7 := by decide
theorem SHORT_TEXT_eq : SHORT_TEXT = 16 := by decide

/-! ### variants and entries -/

inductive Variant where
  | small | medium | large
deriving DecidableEq, Repr

namespace Variant
def entrySize : Variant → Nat
  | small => ES | medium => EM | large => EL
def filterSize : Variant → Nat
  | small => FS | medium => FM | large => FL
def topTermsCount : Variant → Nat
  | small => TS | medium => TM | large => TL
/-- `SketchTrackHeader::variant` (match arms in source order) -/
def ofEntrySize (n : Nat) : Option Variant :=
  if n = ES then some small else if n = EM then some medium else if n = EL then some large else none
end Variant

/-- `SketchEntry` -/
structure Entry where
  frameId : Nat
  simhash : Nat
  termFilter : Bytes
  topTerms : List Nat
  termWeightSum : Nat
  flags : Nat
  lengthHint : Nat
deriving DecidableEq, Repr

/-- `SketchEntry::new` -/
def Entry.new (frameId : Nat) (v : Variant) : Entry :=
  { frameId := frameId, simhash := 0, termFilter := zeros v.filterSize,
    topTerms := List.replicate v.topTermsCount 0, termWeightSum := 0, flags := 0, lengthHint := 0 }

/-! ### term filter -/

/-- `1 << k` as `u8` (`k < 8` at every use) -/
def bitMask (k : Nat) : UInt8 := (1 : UInt8) <<< UInt8.ofNat k

/-- `filter[p / 8] |= 1 << (p % 8)` -/
def setBit (f : Bytes) (p : Nat) : Bytes := f.modify (p / 8) (· ||| bitMask (p % 8))

/-- `filter[p / 8] & (1 << (p % 8)) != 0` -/
def testBit (f : Bytes) (p : Nat) : Bool :=
  match f[p / 8]? with
  | some b => (b &&& bitMask (p % 8)) != 0
  | none => false

/-- `h1, h2, h3` of `build_term_filter` -/
def buildPositions (h bits : Nat) : List Nat :=
  [h % bits, (h >>> BUILD_SHIFT2) % bits, (h >>> BUILD_SHIFT3) % bits]

/-- `h1, h2, h3` of `term_filter_maybe_contains` -/
def testPositions (h bits : Nat) : List Nat :=
  [h % bits, (h >>> TEST_SHIFT2) % bits, (h >>> TEST_SHIFT3) % bits]

/-- one iteration of the `for &hash in token_hashes` loop -/
def addHash (bits : Nat) (f : Bytes) (h : Nat) : Bytes := (buildPositions h bits).foldl setBit f

/-- `build_term_filter`; `none` = panic (`hash % 0` when the size is 0 and there is a hash) -/
def buildTermFilter (hs : List Nat) (size : Nat) : Option Bytes :=
  if size = 0 ∧ hs ≠ [] then none else some (hs.foldl (addHash (size * 8)) (zeros size))

/-- `term_filter_maybe_contains`; `none` = panic (`token_hash % 0` on an empty filter) -/
def maybeContains (f : Bytes) (h : Nat) : Option Bool :=
  if f.length = 0 then none else some ((testPositions h (f.length * 8)).all (testBit f))

/-- `SketchEntry::term_filter_maybe_overlaps` -/
def maybeOverlaps (a b : Bytes) : Bool := (List.zip a b).any fun p => (p.1 &&& p.2) != 0

/-! ### tokenizer, exact for ASCII input (NFKC and Unicode case folding are identities there) -/

def isAsciiAlnum (b : UInt8) : Bool :=
  (48 ≤ b && b ≤ 57) || (65 ≤ b && b ≤ 90) || (97 ≤ b && b ≤ 122)

def lowerAscii (b : UInt8) : UInt8 := if 65 ≤ b && b ≤ 90 then b + 32 else b

/-- `str::split(pred)`: every separator ends a (possibly empty) piece -/
def splitAux (sep : UInt8 → Bool) (cur : Bytes) : Bytes → List Bytes
  | [] => [cur.reverse]
  | b :: bs => if sep b then cur.reverse :: splitAux sep [] bs else splitAux sep (b :: cur) bs

/-- `tokenize_for_sketch` restricted to ASCII text -/
def tokenizeAscii (text : Bytes) : List Bytes :=
  (splitAux (fun b => !isAsciiAlnum b) [] (text.map lowerAscii)).filter fun s => decide (s.length ≥ MIN_TOKEN_LEN)

def isAscii (text : Bytes) : Bool := text.all (· < 128)

/-! ### weights, simhash, top terms -/

/-- distinct tokens in first-occurrence order (the keys of the `tf` map) -/
def dedup : List Bytes → List Bytes
  | [] => []
  | t :: ts => t :: (dedup ts).filter (· != t)

/-- weight of a token without an IDF map: `(min(count, 3) as f32 * 1.0 * 100.0) as i32`, `.max(1)`
    (exact in f32) -/
def wtNoIdf (_t : Bytes) (count : Nat) : Nat := max WEIGHT_MIN (min count TF_CAP * WEIGHT_SCALE)

/-- `b.1.cmp(&a.1).then_with(|| a.0.cmp(&b.0))`: weight descending, then hash ascending -/
def pairLe (a b : Nat × Nat) : Bool := a.2 > b.2 || (a.2 == b.2 && a.1 ≤ b.1)

/-- insertion into a list sorted by `pairLe` -/
def insertPair (a : Nat × Nat) : List (Nat × Nat) → List (Nat × Nat)
  | [] => [a]
  | b :: bs => if pairLe a b then a :: b :: bs else b :: insertPair a bs

/-- sort by `pairLe` (structural, so that closed instances evaluate in the kernel); pairs that compare
    equal both ways are identical, hence every correct sort — Rust's `sort_by` included — yields this list -/
def sortPairs : List (Nat × Nat) → List (Nat × Nat)
  | [] => []
  | a :: as => insertPair a (sortPairs as)

/-- `compute_token_weights`; the result does not depend on the hash-map iteration order (see `sortPairs`) -/
def computeTokenWeights (hash : Bytes → Nat) (wt : Bytes → Nat → Nat) (tokens : List Bytes) : List (Nat × Nat) :=
  sortPairs ((dedup tokens).map fun t => (hash t, wt t (tokens.count t)))

/-- `v[i]` after the accumulation loop of `compute_simhash` -/
def bitSum (tokens : List (Nat × Nat)) (i : Nat) : Int :=
  tokens.foldl (fun acc p => if p.1.testBit i then acc + (p.2 : Int) else acc - (p.2 : Int)) 0

/-- `compute_simhash` -/
def computeSimhash (tokens : List (Nat × Nat)) : Nat :=
  if tokens.isEmpty then 0
  else (List.range 64).foldl (fun s i => if bitSum tokens i > 0 then s ||| (1 <<< i) else s) 0

/-- `(h ^ (h >> 32)) as u32` -/
def foldU32 (h : Nat) : Nat := (h ^^^ (h >>> TOP_FOLD_SHIFT)) % 2 ^ 32

/-- `extract_top_terms` -/
def extractTopTerms (weighted : List (Nat × Nat)) (k : Nat) : List Nat := (weighted.take k).map fun p => foldU32 p.1

/-- `generate_sketch` after tokenisation.  `none` = panic: the `u32` sum of the top weights
    overflows (needs weights near `i32::MAX`, i.e. an absurd IDF map; never without one). -/
def generateSketch (hash : Bytes → Nat) (wt : Bytes → Nat → Nat) (frameId : Nat) (tokens : List Bytes)
    (v : Variant) : Option Entry :=
  if tokens.isEmpty then some { Entry.new frameId v with flags := SHORT_TEXT }
  else
    let weighted := computeTokenWeights hash wt tokens
    match buildTermFilter (weighted.map (·.1)) v.filterSize with
    | none => none
    | some filter =>
      let sum := ((weighted.take v.topTermsCount).map (·.2)).sum
      if sum ≥ 2 ^ 32 then none
      else some {
        frameId := frameId
        simhash := computeSimhash weighted
        termFilter := filter
        topTerms := extractTopTerms weighted v.topTermsCount
        termWeightSum := min sum 65535
        flags := if tokens.length < SHORT_TEXT_TOKENS then FLAGS_ALL ||| SHORT_TEXT else FLAGS_ALL
        lengthHint := min (tokens.length / LENGTH_BUCKET) LENGTH_HINT_MAX }

/-- `QuerySketch::from_query` term filter (the only part the overlap test uses) -/
def queryFilter (hash : Bytes → Nat) (tokens : List Bytes) (v : Variant) : Option Bytes :=
  if tokens.isEmpty then some (zeros v.filterSize)
  else buildTermFilter ((computeTokenWeights hash wtNoIdf tokens).map (·.1)) v.filterSize

/-! ### track -/

/-- `SketchTrack`: the variant and the entries in `frame_order` (frame ids pairwise distinct) -/
structure Track where
  variant : Variant
  entries : List Entry
deriving DecidableEq, Repr

def Track.new (v : Variant) : Track := ⟨v, []⟩

/-- `SketchTrack::insert`: a known frame id keeps its position and gets the new entry -/
def Track.insert (t : Track) (e : Entry) : Track :=
  if t.entries.any (fun x => x.frameId == e.frameId) then
    { t with entries := t.entries.map fun x => if x.frameId = e.frameId then e else x }
  else { t with entries := t.entries ++ [e] }

def Track.ofInserts (v : Variant) (es : List Entry) : Track := es.foldl Track.insert (Track.new v)

/-! ### binary codec -/

/-- first `n` elements, padded with `z` -/
def padTake {α : Type} (n : Nat) (l : List α) (z : α) : List α := l.take n ++ List.replicate (n - l.length) z

/-- `SketchTrackHeader::new(..).to_bytes()` -/
def headerBytes (v : Variant) (count : Nat) : Bytes :=
  MAGIC ++ u16le VERSION ++ u16le v.entrySize ++ u64le count ++ u32le 0 ++ u32le 0

/-- the Small filter field: copied only when the entry has at least 16 filter bytes -/
def smallFilter (f : Bytes) : Bytes := if f.length ≥ FS then f.take FS else zeros FS

/-- `SketchEntry::to_small_bytes` -/
def toSmallBytes (e : Entry) : Bytes :=
  u64le e.simhash ++ smallFilter e.termFilter ++ (padTake TS e.topTerms 0).flatMap u32le

/-- `SketchEntry::to_medium_bytes` -/
def toMediumBytes (e : Entry) : Bytes :=
  u64le e.simhash ++ padTake FM e.termFilter 0 ++ (padTake TM e.topTerms 0).flatMap u32le ++
    u16le e.termWeightSum ++ u16le e.flags ++ u16le e.lengthHint ++ u16le 0

/-- the per-variant branch of the writer loop (Large = Medium bytes resized with zeros) -/
def entryBytes (v : Variant) (e : Entry) : Bytes :=
  match v with
  | .small => toSmallBytes e
  | .medium => toMediumBytes e
  | .large => toMediumBytes e ++ zeros (EL - EM)

/-- bytes produced by `write_sketch_track` (its `length` is their count, its checksum their blake3) -/
def writeTrack (t : Track) : Bytes :=
  headerBytes t.variant t.entries.length ++ t.entries.flatMap (entryBytes t.variant)

/-- `SketchEntry::from_small_bytes` -/
def fromSmallBytes (frameId : Nat) (b : Bytes) : Entry :=
  { frameId := frameId, simhash := leVal (slice b 0 8), termFilter := slice b 8 FS,
    topTerms := (List.range TS).map fun i => leVal (slice b (8 + FS + 4 * i) 4),
    termWeightSum := 0, flags := FLAGS_ALL, lengthHint := 0 }

/-- `SketchEntry::from_medium_bytes` -/
def fromMediumBytes (frameId : Nat) (b : Bytes) : Entry :=
  { frameId := frameId, simhash := leVal (slice b 0 8), termFilter := slice b 8 FM,
    topTerms := (List.range TM).map fun i => leVal (slice b (8 + FM + 4 * i) 4),
    termWeightSum := leVal (slice b (8 + FM + 4 * TM) 2),
    flags := leVal (slice b (8 + FM + 4 * TM + 2) 2),
    lengthHint := leVal (slice b (8 + FM + 4 * TM + 4) 2) }

inductive RErr where
  | io          -- read_exact hit the end of the data
  | magic | entrySize | length
  | overflow    -- only when the reader uses checked arithmetic (proposed repair)
  | panicMul    -- `entry_count * entry_size` overflows u64 (debug profile)
  | panicAdd    -- `SIZE + …` overflows u64 (debug profile)
deriving DecidableEq, Repr

/-- `SIZE as u64 + entry_count * u64::from(entry_size)` with the overflow checks of the debug profile -/
def expectedLength (count entrySize : Nat) : Except RErr Nat :=
  if count * entrySize ≥ 2 ^ 64 then .error (if READER_CHECKED_ARITH then .overflow else .panicMul)
  else if HDR + count * entrySize ≥ 2 ^ 64 then .error (if READER_CHECKED_ARITH then .overflow else .panicAdd)
  else .ok (HDR + count * entrySize)

/-- one `read_exact` of the entry (and, for Large, of the skipped tail) + `from_*_bytes` -/
def decodeEntry (v : Variant) (frameId : Nat) (b : Bytes) : Entry :=
  match v with
  | .small => fromSmallBytes frameId (b.take ES)
  | .medium => fromMediumBytes frameId (b.take EM)
  | .large => fromMediumBytes frameId (b.take EM)

/-- the `for frame_id in 0..entry_count` loop over the bytes that follow the header -/
def readEntries (v : Variant) : Nat → Nat → Bytes → Except RErr (List Entry)
  | 0, _, _ => .ok []
  | n + 1, id, data =>
    if data.length < v.entrySize then .error .io
    else match readEntries v n (id + 1) (data.drop v.entrySize) with
      | .error e => .error e
      | .ok rest => .ok (decodeEntry v id data :: rest)

/-- `read_sketch_track(reader, offset, length)` on a reader holding `file` -/
def readTrack (file : Bytes) (offset length : Nat) : Except RErr Track :=
  let hb := slice file offset HDR
  if hb.length < HDR then .error .io
  else if slice hb 0 4 ≠ MAGIC then .error .magic
  else
    let entrySize := leVal (slice hb 6 2)
    let count := leVal (slice hb 8 8)
    match Variant.ofEntrySize entrySize with
    | none => .error .entrySize
    | some v =>
      match expectedLength count entrySize with
      | .error e => .error e
      | .ok expected =>
        if length < expected then .error .length
        else match readEntries v count 0 (file.drop (offset + HDR)) with
          | .error e => .error e
          | .ok es => .ok (Track.ofInserts v es)

/-! ### what a write-then-read does to a track (the normal form proved in MvProps/C39) -/

/-- the entry the reader reconstructs at position `i` from what the writer stored for `e` -/
def normEntry (v : Variant) (i : Nat) (e : Entry) : Entry :=
  match v with
  | .small =>
    { frameId := i, simhash := e.simhash, termFilter := smallFilter e.termFilter,
      topTerms := padTake TS e.topTerms 0, termWeightSum := 0, flags := FLAGS_ALL, lengthHint := 0 }
  | _ =>
    { frameId := i, simhash := e.simhash, termFilter := padTake FM e.termFilter 0,
      topTerms := padTake TM e.topTerms 0, termWeightSum := e.termWeightSum, flags := e.flags,
      lengthHint := e.lengthHint }

def normFrom (v : Variant) : Nat → List Entry → List Entry
  | _, [] => []
  | i, e :: es => normEntry v i e :: normFrom v (i + 1) es

def normalize (t : Track) : Track := ⟨t.variant, normFrom t.variant 0 t.entries⟩

/-! ### vocabulary of the property statements (MvProps/C39.lean) -/

/-- value ranges of the Rust field types -/
def Entry.InRange (e : Entry) : Prop :=
  e.simhash < 2 ^ 64 ∧ (∀ x ∈ e.topTerms, x < 2 ^ 32) ∧ e.termWeightSum < 2 ^ 16 ∧ e.flags < 2 ^ 16 ∧
    e.lengthHint < 2 ^ 16

/-- what the Rust types guarantee about a track: field widths, and the byte length fits a `u64` -/
def Track.InRange (t : Track) : Prop :=
  (∀ e ∈ t.entries, e.InRange) ∧ HDR + t.entries.length * t.variant.entrySize < 2 ^ 64

/-- an entry already has the shape the variant's on-disk entry can hold -/
def Entry.Stored (v : Variant) (e : Entry) : Prop :=
  match v with
  | .small => e.termFilter.length = FS ∧ e.topTerms.length = TS ∧ e.termWeightSum = 0 ∧ e.flags = FLAGS_ALL ∧
      e.lengthHint = 0
  | _ => e.termFilter.length = FM ∧ e.topTerms.length = TM

def CanonFrom (v : Variant) : Nat → List Entry → Prop
  | _, [] => True
  | i, e :: es => (e.frameId = i ∧ e.Stored v) ∧ CanonFrom v (i + 1) es

/-- frame ids are exactly 0..n-1 in insertion order and every entry is in stored shape -/
def Track.Canonical (t : Track) : Prop := CanonFrom t.variant 0 t.entries

/-- filter bytes / top terms an on-disk entry of the variant holds -/
def Variant.storedFilter : Variant → Nat
  | .small => FS | _ => FM
def Variant.storedTops : Variant → Nat
  | .small => TS | _ => TM

/-- the header at `offset` is complete, has the magic and a valid entry size -/
def HeaderOk (file : Bytes) (offset : Nat) : Prop :=
  (slice file offset HDR).length = HDR ∧ slice (slice file offset HDR) 0 4 = MAGIC ∧
    (Variant.ofEntrySize (leVal (slice (slice file offset HDR) 6 2))).isSome

/-- sorted by weight descending, then hash ascending -/
def SortedPairs (l : List (Nat × Nat)) : Prop := l.Pairwise (fun a b => pairLe a b = true)

deriving instance DecidableEq for Except

instance (e : Entry) : Decidable e.InRange := by unfold Entry.InRange; infer_instance
instance (t : Track) : Decidable t.InRange := by unfold Track.InRange; infer_instance

instance (v : Variant) (e : Entry) : Decidable (e.Stored v) := by unfold Entry.Stored; cases v <;> infer_instance
def decCanonFrom (v : Variant) : (i : Nat) → (es : List Entry) → Decidable (CanonFrom v i es)
  | _, [] => isTrue trivial
  | i, e :: es => by
    have := decCanonFrom v (i + 1) es
    unfold CanonFrom
    infer_instance
instance (v : Variant) (i : Nat) (es : List Entry) : Decidable (CanonFrom v i es) := decCanonFrom v i es
instance (t : Track) : Decidable t.Canonical := by unfold Track.Canonical; infer_instance

end Mv.Sketch
