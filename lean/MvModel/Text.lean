/-
  Model of `/repo/src/text.rs`: `normalize_text` and `truncate_at_grapheme_boundary`.

  Text is `List Char` (Unicode scalar values); byte lengths are UTF-8 lengths (`Char.utf8Size`).
  The Unicode tables are black boxes, bundled in `Uni`:
    nfkc          `unicode_normalization::UnicodeNormalization::nfkc`
    isControl     `char::is_control`      (General_Category = Cc)
    isWhitespace  `char::is_whitespace`   (White_Space)
    graphemes     `unicode_segmentation::UnicodeSegmentation::graphemes(true)`
  The theorems (MvProps/C33.lean) quantify over `Uni` and name the laws they need; the driver
  (MvDrv/C33.lean) plugs in the results the harness computed with the real crates.

  The shape of the pipeline is read from the source on every run (tools/gen/C33.py →
  MvModel/Gen/C33.lean): `normalizeSrc` follows the working tree, `normalizeOrig` is the code as
  found (NFKC first, then control removal; no trailing-whitespace cut after truncation),
  `normalize` is the repaired arrangement of /verif/fixes/C33.diff that the theorems are about.
-/
import MvModel.Gen.C33
namespace Mv.Text

structure Uni where
  nfkc : List Char → List Char
  isControl : Char → Bool
  isWhitespace : Char → Bool
  graphemes : List Char → List (List Char)

/-- `str::len`: UTF-8 length -/
def bytes (s : List Char) : Nat := (s.map Char.utf8Size).sum

/-- `limit.max(1)` (the constant is regenerated from the source) -/
def MIN_LIMIT : Nat := Mv.Gen.C33.MIN_LIMIT

/-- the `if ch == '\r' { ch = '\n' }  if ch == '\t' { ch = ' ' }` rewrites, applied in order -/
def mapCh (ch : Char) : Char :=
  Mv.Gen.C33.CHAR_MAP.foldl (fun c p => if c = p.1 then p.2 else c) ch

/-- state of the cleaning loop; `cleaned` is kept REVERSED (head = last pushed char) -/
structure CleanSt where
  cleaned : List Char
  lastSpace : Bool
  lastNewline : Bool
deriving Repr, DecidableEq

def CleanSt.init : CleanSt := { cleaned := [], lastSpace := false, lastNewline := false }

/-- one iteration of `for mut ch in normalised.chars()` -/
def cleanStep (U : Uni) (st : CleanSt) (ch0 : Char) : CleanSt :=
  let ch := mapCh ch0
  if U.isControl ch && ch != '\n' then st
  else if ch = '\n' then
    if st.lastNewline then st
    else { cleaned := '\n' :: st.cleaned.dropWhile (· == ' '), lastSpace := false, lastNewline := true }
  else if U.isWhitespace ch then
    if st.lastSpace || st.cleaned.head? == some '\n' then st
    else { cleaned := ' ' :: st.cleaned, lastSpace := true, lastNewline := false }
  else { cleaned := ch :: st.cleaned, lastSpace := false, lastNewline := false }

/-- the whole cleaning loop -/
def clean (U : Uni) (s : List Char) : List Char :=
  (s.foldl (cleanStep U) CleanSt.init).cleaned.reverse

/-- `cleaned.trim_matches(|c| c.is_whitespace())` -/
def trimWs (U : Uni) (s : List Char) : List Char :=
  ((s.dropWhile U.isWhitespace).reverse.dropWhile U.isWhitespace).reverse

/-- the truncation loop: clusters pushed to `out` before the first one that does not fit,
    and the `truncated` flag -/
def takeFit (limit : Nat) : List (List Char) → Nat → List (List Char) × Bool
  | [], _ => ([], false)
  | g :: rest, consumed =>
    let next := consumed + bytes g
    if next > limit then ([], true)
    else
      let r := takeFit limit rest next
      (g :: r.1, r.2)

/-- `grapheme.ends_with(char::is_whitespace)` -/
def endsWs (U : Uni) (g : List Char) : Bool :=
  match g.getLast? with
  | some c => U.isWhitespace c
  | none => false

/-- `out.truncate(keep)`: cut `out` back to the last pushed cluster that does not end in whitespace -/
def dropTrailWs (U : Uni) (gs : List (List Char)) : List (List Char) :=
  (gs.reverse.dropWhile (endsWs U)).reverse

/-- the filter in front of `.nfkc()` (`keep = none`: no filter) -/
def prefilter (keep : Option (List Char)) (U : Uni) (input : List Char) : List Char :=
  match keep with
  | some ks => input.filter (fun ch => !U.isControl ch || ks.contains ch)
  | none => input

/-- the text before truncation: `trimmed` -/
def cleanedText (keep : Option (List Char)) (U : Uni) (input : List Char) : List Char :=
  trimWs U (clean U (U.nfkc (prefilter keep U input)))

/-- `normalize_text` with the truncation step written at cluster level (the form the theorems use;
    `normalizeLit` below is the literal loop and `normalizeLit_eq` proves the two equal),
    parameterised by the two repairs. `none` = `None`;
    `some (text, truncated)` = `Some(NormalizedText { text, truncated })`. -/
def normalizeCfg (keep : Option (List Char)) (trail : Bool) (U : Uni) (input : List Char) (limit : Nat) :
    Option (List Char × Bool) :=
  let limit := max limit MIN_LIMIT
  let t := cleanedText keep U input
  if t.isEmpty then none
  else
    let gs := U.graphemes t
    let r := takeFit limit gs 0
    let kept := if trail && r.2 then dropTrailWs U r.1 else r.1
    let out := kept.flatten
    if out.isEmpty then
      match gs with
      | g :: _ => some (g, true)
      | [] => some (out, r.2)
    else some (out, r.2)

/-- `String::truncate(new_len)`; `none` = panic (`new_len` falls inside a character) -/
def truncateStr : List Char → Nat → Option (List Char)
  | [], _ => some []
  | c :: r, n =>
    if n = 0 then some []
    else if n < c.utf8Size then none
    else (truncateStr r (n - c.utf8Size)).map (c :: ·)

/-- the truncation loop as written: `out`, `consumed`, `keep` (only tracked with the repair),
    result `(out, keep, truncated)` -/
def truncLoop (U : Uni) (trail : Bool) (limit : Nat) :
    List (List Char) → List Char → Nat → Nat → List Char × Nat × Bool
  | [], out, _, keep => (out, keep, false)
  | g :: rest, out, consumed, keep =>
    let next := consumed + bytes g
    if next > limit then (out, keep, true)
    else truncLoop U trail limit rest (out ++ g) next (if trail && !endsWs U g then next else keep)

/-- `normalize_text`, literal mirror. Outer `none` = panic (`String::truncate` off a char boundary). -/
def normalizeLit (keep : Option (List Char)) (trail : Bool) (U : Uni) (input : List Char) (limit : Nat) :
    Option (Option (List Char × Bool)) :=
  let limit := max limit MIN_LIMIT
  let t := cleanedText keep U input
  if t.isEmpty then some none
  else
    let gs := U.graphemes t
    let r := truncLoop U trail limit gs [] 0 0
    match (if trail && r.2.2 then truncateStr r.1 r.2.1 else some r.1) with
    | none => none
    | some out =>
      if out.isEmpty then
        match gs with
        | g :: _ => some (some (g, true))
        | [] => some (some (out, r.2.2))
      else some (some (out, r.2.2))

/-- the pipeline of the working tree (literal mirror, shape read from the source) -/
def normalizeSrc : Uni → List Char → Nat → Option (Option (List Char × Bool)) :=
  normalizeLit Mv.Gen.C33.PREFILTER_KEEP Mv.Gen.C33.TRAIL_FIX

/-- the code as found: NFKC, then control removal + whitespace compaction, plain truncation -/
def normalizeOrig : Uni → List Char → Nat → Option (List Char × Bool) :=
  normalizeCfg none false

/-- the repaired pipeline (fixes/C33.diff): controls other than LF/CR/TAB dropped before NFKC;
    after a truncation, trailing clusters ending in whitespace are cut -/
def normalize : Uni → List Char → Nat → Option (List Char × Bool) :=
  normalizeCfg (some ['\n', '\r', '\t']) true

/-- the `for (idx, grapheme) in s.grapheme_indices(true)` loop of `truncate_at_grapheme_boundary` -/
def scanEnd (limit : Nat) : List (List Char) → Nat → Nat → Nat
  | [], _, e => e
  | g :: rest, idx, e =>
    let next := idx + bytes g
    if next > limit then e else scanEnd limit rest next next

/-- `truncate_at_grapheme_boundary(s, limit)` -/
def truncIdx (U : Uni) (s : List Char) (limit : Nat) : Nat :=
  if bytes s ≤ limit then bytes s
  else
    let e := scanEnd limit (U.graphemes s) 0 0
    if e = 0 then
      match U.graphemes s with
      | g :: _ => bytes g
      | [] => 0
    else e

/-! Rust std tables (used by the driver and by the toy instances; the harness compares them
    with `char::is_control` / `char::is_whitespace` over every scalar value on each run). -/

/-- `char::is_control`: General_Category Cc = U+0000..U+001F, U+007F..U+009F -/
def stdIsControl (c : Char) : Bool :=
  c.toNat < 0x20 || (0x7F ≤ c.toNat && c.toNat ≤ 0x9F)

/-- `char::is_whitespace`: the White_Space property -/
def stdIsWhitespace (c : Char) : Bool :=
  let n := c.toNat
  (0x09 ≤ n && n ≤ 0x0D) || n = 0x20 || n = 0x85 || n = 0xA0 || n = 0x1680 ||
  (0x2000 ≤ n && n ≤ 0x200A) || n = 0x2028 || n = 0x2029 || n = 0x202F || n = 0x205F || n = 0x3000

/-- split a text into consecutive clusters of the given lengths (driver: lengths come from the
    real segmenter); a zero length or leftover text is passed through so that it shows -/
def splitLens : List Nat → List Char → List (List Char)
  | [], [] => []
  | [], s => [s]
  | n :: ns, s => s.take n :: splitLens ns (s.drop n)

end Mv.Text
