#!/usr/bin/env python3
"""C42: code-shape flags of `Memvid::vacuum` (src/memvid/mutation.rs).

Gen/C42.lean gets
  VACUUM_SETS_PAYLOAD_END   after the compaction loop `vacuum` assigns `self.cached_payload_end = cursor`
                            (without it `rebuild_indexes` starts the index region at the STALE payload end,
                            which lies inside the rewritten payloads when frames shared a stored range)
  VACUUM_PERSISTS_SKETCH    after `rebuild_indexes` `vacuum` writes the sketch track again (`persist_sketch_track` +
                            `rewrite_toc_footer`, as commit does; without it the rebuilt indexes may cover the bytes
                            the sketch manifest points to and the file no longer opens)
  VACUUM_CHECKPOINTS_WAL    after `rebuild_indexes` `vacuum` calls `self.wal.record_checkpoint(&mut self.header)`
                            and persists the header (without it the Lex record appended by the rebuild's Tantivy
                            flush stays pending and `Memvid::verify` reports WalPendingRecords = Failed)
The three flags select the model variant the correspondence run compares with the implementation
(`Mv.Core.codeVacuum`); the theorems are stated for explicit variants.  The translator also checks the
statements of `vacuum` the model mirrors (leading commit, compaction loop, Tantivy reset, rebuild).
"""
import re
from common import *


def fn_body(src, name):
    s = strip_comments(src)
    m = re.search(r"\bfn\s+" + re.escape(name) + r"\b", s)
    if not m:
        raise TranslateError(f"fn {name} not found")
    i = s.find("{", m.end())
    depth, j = 0, i
    while j < len(s):
        if s[j] == "{":
            depth += 1
        elif s[j] == "}":
            depth -= 1
            if depth == 0:
                break
        j += 1
    if i < 0 or j >= len(s):
        raise TranslateError(f"fn {name}: body not delimited")
    return re.sub(r"\s+", "", s[i:j + 1])


def lean_bool(b):
    return "true" if b else "false"


def run():
    mut = read("src/memvid/mutation.rs")
    vac = fn_body(mut, "vacuum")
    # the statements the model mirrors, in order
    shape = ["self.commit()?;",
             "letmutcursor=self.header.wal_offset+self.header.wal_size;",
             "ifframe.status==FrameStatus::Active{",
             "frame.payload_offset=cursor;",
             "cursor+=bytes.len()asu64;",
             "frame.payload_offset=0;frame.payload_length=0;",
             "self.data_end=cursor;",
             "self.toc.segment_catalog.tantivy_segments.clear();",
             "self.tantivy=None;self.tantivy_dirty=false;",
             "self.rebuild_indexes(&[],&[])?;"]
    pos = 0
    for frag in shape:
        k = vac.find(frag, pos)
        if k < 0:
            raise TranslateError(f"vacuum: statement not found (in order): {frag}")
        pos = k + len(frag)
    i_end = vac.find("self.data_end=cursor;")
    i_reb = vac.find("self.rebuild_indexes(&[],&[])?;")
    i_set = vac.find("self.cached_payload_end=cursor;")
    if i_set >= 0 and not (i_end < i_set < i_reb):
        raise TranslateError("vacuum: `self.cached_payload_end = cursor` is not between the compaction loop and rebuild_indexes")
    if "cached_payload_end" in vac.replace("self.cached_payload_end=cursor;", ""):
        raise TranslateError("vacuum: unknown use of cached_payload_end")
    sets_pe = i_set >= 0
    tail = vac[i_reb:]
    if "record_checkpoint" in vac[:i_reb]:
        raise TranslateError("vacuum: record_checkpoint before rebuild_indexes (unknown shape)")
    if "self.wal.record_checkpoint(&mutself.header)?;" in tail:
        k = tail.find("self.wal.record_checkpoint(&mutself.header)?;")
        if "persist_header(&mutself.file,&self.header)?;" not in tail[k:]:
            raise TranslateError("vacuum: record_checkpoint without persist_header after it")
        ckpt = True
    elif "record_checkpoint" in tail or "self.commit()" in tail:
        raise TranslateError("vacuum: unknown checkpoint shape after rebuild_indexes")
    else:
        ckpt = False
    sk = "if!self.sketch_track.is_empty(){self.persist_sketch_track()?;self.rewrite_toc_footer()?;self.header.toc_checksum=self.toc.toc_checksum;}"
    if sk in tail:
        if ckpt and tail.find(sk) > tail.find("self.wal.record_checkpoint(&mutself.header)?;"):
            raise TranslateError("vacuum: sketch track persisted after the WAL checkpoint (unknown shape)")
        sketch = True
    elif "persist_sketch_track" in vac:
        raise TranslateError("vacuum: unknown persist_sketch_track shape")
    else:
        sketch = False
    body = f"""/-- `vacuum` assigns `cached_payload_end = cursor` after the compaction loop -/
def VACUUM_SETS_PAYLOAD_END : Bool := {lean_bool(sets_pe)}
/-- `vacuum` persists the sketch track again after `rebuild_indexes` -/
def VACUUM_PERSISTS_SKETCH : Bool := {lean_bool(sketch)}
/-- `vacuum` checkpoints the WAL (and persists the header) after `rebuild_indexes` -/
def VACUUM_CHECKPOINTS_WAL : Bool := {lean_bool(ckpt)}
"""
    return emit("C42", body)


main(run)
