/- Driver for C18 (read-only access).  One session at a time:
     variant                          → clears=<0|1> aligns=<0|1> walro=<0|1>      (what tools/gen/C18.py saw)
     file <rle>                       → located <footerOffset> <tocOffset> <tocLen> <generation> <adjust> | none
                                        (<rle> = comma-separated pieces: hex, or z<N> for N zero bytes)
     open <code|current|repaired> badtoc
     open <v> <frames> <csum hex> <lex 0|1> <tsegs> <lsegs> <cat> <enc rle> <ecsum hex>
                                      → <ok|err-…> nw=<n> frames=<n|-> fo=<n|-> gen=<n|-> lexen=<0|1|-> tantivy=<0|1|-> writes=<w;w;…|->
                                        (extent lists: off:len;off:len… or -;  w = p:<off>:<hex> | t:<n>)
     op <frame_count|frame_by_id i|frame_text i|search|timeline|stats|wal_pending>
                                      → <count n|found 0/1|ok|err> nw=<n>
     close                            → nw=<n> len=<n> writes=<…>
-/
import MvModel.ReadOnly
import MvModel.Blake3
import MvModel.DrvUtil
open Mv Mv.ReadOnly

structure St where
  file : Bytes := []
  handle : Option Handle := none
  variant : Variant := codeVariant
  ext : Ext := { H := Blake3.hash, decodeToc := fun _ => none, encodeToc := fun _ => ([], []) }

def hexNib (c : Char) : Option Nat := hexVal c

/-- tail-recursive hex → bytes (files are ~100 KB; `Mv.ofHexChars` is not tail recursive) -/
def pushHex : List Char → Array UInt8 → Option (Array UInt8)
  | [], acc => some acc
  | [_], _ => none
  | a :: b :: rest, acc =>
    match hexNib a, hexNib b with
    | some x, some y => pushHex rest (acc.push (UInt8.ofNat (16 * x + y)))
    | _, _ => none

def pushZeros : Nat → Array UInt8 → Array UInt8
  | 0, acc => acc
  | n+1, acc => pushZeros n (acc.push 0)

def parseRle (s : String) : Option Bytes :=
  if s == "-" then some [] else
  let rec go : List String → Array UInt8 → Option (Array UInt8)
    | [], acc => some acc
    | p :: ps, acc =>
      if p.startsWith "z" then
        match (p.drop 1).toString.toNat? with
        | some n => go ps (pushZeros n acc)
        | none => none
      else match pushHex p.toList acc with
        | some acc' => go ps acc'
        | none => none
  (go (s.splitOn ",") #[]).map (·.toList)

def parseExtents (s : String) : Option (List (Nat × Nat)) :=
  if s == "-" then some [] else
  (s.splitOn ";").mapM fun p =>
    match p.splitOn ":" with
    | [a, b] => match a.toNat?, b.toNat? with
      | some x, some y => some (x, y)
      | _, _ => none
    | _ => none

def showWrite : Write → String
  | .pwrite off w => s!"p:{off}:{toHexW w}"
  | .setLen n => s!"t:{n}"

def showWrites (ws : List Write) : String :=
  if ws.isEmpty then "-" else ";".intercalate (ws.map showWrite)

def b01 (b : Bool) : String := if b then "1" else "0"

def errName : Err → String
  | .io => "err-io" | .noFooter => "err-nofooter" | .badToc => "err-badtoc"
  | .header e => s!"err-header-{e.name}"
  | .wal (.corrupt off) => s!"err-wal-corrupt-{off}"
  | .wal _ => "err-wal"
  | .tantivy => "err-tantivy"

def parseVariant (s : String) : Option Variant :=
  if s == "code" then some codeVariant
  else if s == "current" then some Variant.current
  else if s == "repaired" then some Variant.repaired
  else none

def showOpened (o : Opened) : String :=
  match o.res with
  | .error e => s!"{errName e} nw={o.log.length} frames=- fo=- gen=- lexen=- tantivy=- writes={showWrites o.log}"
  | .ok h => s!"ok nw={o.log.length} frames={h.toc.frames} fo={h.header.footerOffset} gen={h.generation} lexen={b01 h.lexEnabled} tantivy={b01 h.tantivy} writes={showWrites o.log}"

def showOut : Out → String
  | .count n => s!"count {n}"
  | .found b => s!"found {b01 b}"
  | .ok => "ok"
  | .err => "err"

def doOp (st : St) (op : ReadOp) : St × String :=
  match st.handle with
  | none => (st, "no-handle")
  | some h =>
    let r := readStep st.variant st.ext h op
    ({ st with handle := some r.1 }, s!"{showOut r.2} nw={r.1.log.length}")

def step (st : St) (ws : List String) : St × String :=
  match ws with
  | ["variant"] =>
    (st, s!"clears={b01 codeVariant.clearsLegacy} aligns={b01 codeVariant.alignsWhenReadOnly} walro={b01 Mv.Gen.C18.WAL_OPENED_READ_ONLY}")
  | ["file", r] =>
    match parseRle r with
    | none => (st, "bad-op")
    | some d =>
      let st' : St := { file := d }
      match locateFooterWindow Blake3.hash d with
      | none => (st', "none")
      | some (s, adj) => (st', s!"located {s.footerOffset + adj} {s.tocOffset + adj} {s.footer.tocLen} {s.footer.generation} {adj}")
  | ["open", v, "badtoc"] =>
    match parseVariant v with
    | none => (st, "bad-op")
    | some v =>
      let ext : Ext := { H := Blake3.hash, decodeToc := fun _ => none, encodeToc := fun _ => ([], []) }
      let o := openReadOnly v ext st.file
      ({ st with variant := v, ext := ext, handle := o.res.toOption }, showOpened o)
  | ["open", v, frames, csum, lex, tsegs, lsegs, cat, enc, ecsum] =>
    match parseVariant v, frames.toNat?, ofHex csum, parseExtents tsegs, parseExtents lsegs, parseExtents cat,
          parseRle enc, ofHex ecsum with
    | some v, some n, some cs, some ts, some ls, some ct, some e, some ecs =>
      let view : TocView := { frames := n, tocChecksum := cs, lexIndex := lex == "1", tantivySegs := ts,
                              lexStorageSegs := ls, catalogOther := ct }
      let ext : Ext := { H := Blake3.hash, decodeToc := fun _ => some view, encodeToc := fun _ => (e, ecs) }
      let o := openReadOnly v ext st.file
      ({ st with variant := v, ext := ext, handle := o.res.toOption }, showOpened o)
    | _, _, _, _, _, _, _, _ => (st, "bad-op")
  | ["op", "frame_count"] => doOp st .frameCount
  | ["op", "frame_by_id", i] => match i.toNat? with
    | some i => doOp st (.frameById i)
    | none => (st, "bad-op")
  | ["op", "frame_text", i] => match i.toNat? with
    | some i => doOp st (.frameText i)
    | none => (st, "bad-op")
  | ["op", "search"] => doOp st .search
  | ["op", "timeline"] => doOp st .timeline
  | ["op", "stats"] => doOp st .stats
  | ["op", "wal_pending"] => doOp st .walPending
  | ["close"] =>
    match st.handle with
    | none => (st, "no-handle")
    | some h => ({ st with handle := none }, s!"nw={h.log.length} len={h.file.length} writes={showWrites h.log}")
  | _ => (st, "bad-op")

def main : IO Unit := runDriver ({} : St) step
