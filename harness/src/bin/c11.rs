//! C11 — time-travel search never returns frames from the future.
//!
//! impl : `Memvid::search` on real .mv2 files (SearchRequest{as_of_frame, as_of_ts, no_sketch, ..}),
//!        `Memvid::verif_replay_frame_ids` / `verif_date_range_frame_ids` (cfg hooks) and the public
//!        `find_sketch_candidates` for the inputs of the candidate-filter computation.
//! model: drv_c11 `flt fix …` (MvModel/Filter.lean, repaired sketch rule) — replay ids, the set of
//!        matching documents the filter lets through, the number of hits on the page.
//! oracle (independent of the model): every hit is an active frame with id <= as_of_frame and
//!        timestamp <= as_of_ts; every hit of the filtered search is a hit of the complete
//!        unfiltered search; same-page comparison (classified as a known finding when the
//!        unfiltered page is truncated).
use memvid_core::{AclEnforcementMode, FrameStatus, Memvid, PutOptions, SearchRequest, SketchSearchOptions};
use mvh::*;
use std::collections::BTreeSet;

const VOCAB: [&str; 12] = [
    "zorvex", "quibnak", "melthop", "draxim", "phenwock", "toblug", "vintrax", "korlump", "sabnith", "yurgon",
    "hexmoor", "plindaq",
];
const TS_BASE: i64 = 1_700_000_000;
const SIG_PAGE: &str = "filtered-page-shows-hit-outside-unfiltered-page";

#[derive(Clone, Debug)]
struct Doc {
    words: Vec<usize>,
    ts: i64,
}

#[derive(Clone, Debug, Default)]
struct Query {
    words: Vec<usize>,
    or: bool,
    date: Option<(Option<i64>, Option<i64>)>,
    as_of_frame: Option<u64>,
    as_of_ts: Option<i64>,
    no_sketch: bool,
    top_k: usize,
    cursor: Option<usize>,
}

#[derive(Clone, Debug)]
struct Case {
    docs: Vec<Doc>,
    deletes: Vec<u64>,
    queries: Vec<Query>,
}

// ------------------------------------------------------------------------------------------ json
fn opt_i(v: Option<i64>) -> Value { v.map_or(Value::Null, |x| json!(x)) }
fn q_json(q: &Query) -> Value {
    json!({"words": q.words, "or": q.or,
           "date": q.date.map_or(Value::Null, |(a, b)| json!([opt_i(a), opt_i(b)])),
           "as_of_frame": q.as_of_frame, "as_of_ts": q.as_of_ts, "no_sketch": q.no_sketch,
           "top_k": q.top_k, "cursor": q.cursor})
}
fn case_json(c: &Case) -> Value {
    json!({"docs": c.docs.iter().map(|d| json!({"words": d.words, "ts": d.ts})).collect::<Vec<_>>(),
           "deletes": c.deletes, "queries": c.queries.iter().map(q_json).collect::<Vec<_>>()})
}
fn q_from(v: &Value) -> Query {
    let oi = |x: &Value| x.as_i64();
    Query {
        words: v["words"].as_array().map(|a| a.iter().map(|x| x.as_u64().unwrap() as usize).collect()).unwrap_or_default(),
        or: v["or"].as_bool().unwrap_or(false),
        date: v["date"].as_array().map(|a| (oi(&a[0]), oi(&a[1]))),
        as_of_frame: v["as_of_frame"].as_u64(),
        as_of_ts: v["as_of_ts"].as_i64(),
        no_sketch: v["no_sketch"].as_bool().unwrap_or(false),
        top_k: v["top_k"].as_u64().unwrap_or(10) as usize,
        cursor: v["cursor"].as_u64().map(|x| x as usize),
    }
}
fn case_from(v: &Value) -> Case {
    Case {
        docs: v["docs"].as_array().unwrap().iter().map(|d| Doc {
            words: d["words"].as_array().unwrap().iter().map(|x| x.as_u64().unwrap() as usize).collect(),
            ts: d["ts"].as_i64().unwrap(),
        }).collect(),
        deletes: v["deletes"].as_array().map(|a| a.iter().map(|x| x.as_u64().unwrap()).collect()).unwrap_or_default(),
        queries: v["queries"].as_array().unwrap().iter().map(q_from).collect(),
    }
}

// ------------------------------------------------------------------------------------------ text
fn doc_text(i: usize, d: &Doc) -> String {
    let mut s: Vec<String> = d.words.iter().map(|w| VOCAB[*w].to_string()).collect();
    s.push(format!("item{i}"));
    s.join(" ")
}

/// unix seconds → RFC 3339 (UTC)
fn rfc3339(ts: i64) -> String {
    let days = ts.div_euclid(86400);
    let secs = ts.rem_euclid(86400);
    let z = days + 719_468;
    let era = z.div_euclid(146_097);
    let doe = z.rem_euclid(146_097);
    let yoe = (doe - doe / 1460 + doe / 36524 - doe / 146_096) / 365;
    let y = yoe + era * 400;
    let doy = doe - (365 * yoe + yoe / 4 - yoe / 100);
    let mp = (5 * doy + 2) / 153;
    let d = doy - (153 * mp + 2) / 5 + 1;
    let m = if mp < 10 { mp + 3 } else { mp - 9 };
    let y = if m <= 2 { y + 1 } else { y };
    format!("{:04}-{:02}-{:02}T{:02}:{:02}:{:02}Z", y, m, d, secs / 3600, (secs % 3600) / 60, secs % 60)
}

fn query_text(q: &Query) -> String {
    let ws: Vec<&str> = q.words.iter().map(|w| VOCAB[*w]).collect();
    let mut s = if q.or && ws.len() > 1 { format!("({})", ws.join(" OR ")) } else { ws.join(" ") };
    if let Some((a, b)) = q.date {
        let f = |x: Option<i64>| x.map_or("*".to_string(), rfc3339);
        if !s.is_empty() { s.push(' '); }
        s.push_str(&format!("date:[{} TO {}]", f(a), f(b)));
    }
    s
}

/// the harness's own notion of "document matches the query" (controlled vocabulary, whole words)
fn doc_matches(d: &Doc, q: &Query) -> bool {
    let words_ok = if q.words.is_empty() { true }
        else if q.or { q.words.iter().any(|w| d.words.contains(w)) }
        else { q.words.iter().all(|w| d.words.contains(w)) };
    let date_ok = match q.date {
        None => true,
        Some((a, b)) => a.is_none_or(|a| d.ts >= a) && b.is_none_or(|b| d.ts <= b),
    };
    words_ok && date_ok
}

// ------------------------------------------------------------------------------------------ real code
#[derive(Clone, Debug, Default)]
struct Obs {
    hits: Vec<u64>,
    total: usize,
    next: Option<String>,
    engine: String,
    err: Option<String>,
}

fn request(q: &Query, text: &str, with_as_of: bool, top_k: usize, cursor: Option<usize>, no_sketch: bool) -> SearchRequest {
    SearchRequest {
        query: text.to_string(),
        top_k,
        snippet_chars: 120,
        uri: None,
        scope: None,
        cursor: cursor.map(|c| c.to_string()),
        as_of_frame: if with_as_of { q.as_of_frame } else { None },
        as_of_ts: if with_as_of { q.as_of_ts } else { None },
        no_sketch,
        acl_context: None,
        acl_enforcement_mode: AclEnforcementMode::Audit,
    }
}

fn do_search(mem: &mut Memvid, req: SearchRequest) -> Obs {
    match mem.search(req) {
        Ok(r) => Obs {
            hits: r.hits.iter().map(|h| h.frame_id).collect(),
            total: r.total_hits,
            next: r.next_cursor.clone(),
            engine: format!("{:?}", r.engine),
            err: None,
        },
        Err(e) => Obs { err: Some(e.to_string()), ..Default::default() },
    }
}

fn ids(v: &[u64]) -> String {
    if v.is_empty() { "-".into() } else { v.iter().map(|x| x.to_string()).collect::<Vec<_>>().join(",") }
}
fn set(v: &[u64]) -> BTreeSet<u64> { v.iter().copied().collect() }
fn field<'a>(ans: &'a str, key: &str) -> &'a str {
    ans.split(' ').find_map(|w| w.strip_prefix(key).and_then(|r| r.strip_prefix('='))).unwrap_or("?")
}
fn parse_ids(s: &str) -> Vec<u64> {
    if s == "-" || s == "?" || s == "none" || s == "empty" || s == "all" { vec![] } else { s.split(',').filter_map(|x| x.parse().ok()).collect() }
}

struct Built {
    _dir: tempfile::TempDir,
    mem: Memvid,
    frames: Vec<(u64, i64, bool)>,
}

fn build(c: &Case) -> Result<Built, String> {
    let dir = tempfile::tempdir().map_err(|e| e.to_string())?;
    let path = dir.path().join("c11.mv2");
    let mut mem = Memvid::create(&path).map_err(|e| format!("create: {e}"))?;
    mem.enable_lex().map_err(|e| format!("enable_lex: {e}"))?;
    for (i, d) in c.docs.iter().enumerate() {
        let mut o = PutOptions::default();
        o.timestamp = Some(d.ts);
        o.auto_tag = false;
        o.extract_dates = false;
        o.extract_triplets = false;
        o.enable_embedding = false;
        o.instant_index = false;
        mem.put_bytes_with_options(doc_text(i, d).as_bytes(), o).map_err(|e| format!("put {i}: {e}"))?;
    }
    mem.commit().map_err(|e| format!("commit: {e}"))?;
    let mut any = false;
    for id in &c.deletes {
        if (*id as usize) < c.docs.len() && mem.delete_frame(*id).is_ok() { any = true; }
    }
    if any { mem.commit().map_err(|e| format!("commit after delete: {e}"))?; }
    let n = mem.frame_count();
    let mut frames = Vec::new();
    for i in 0..n as u64 {
        let f = mem.frame_by_id(i).map_err(|e| format!("frame_by_id {i}: {e}"))?;
        frames.push((f.id, f.timestamp, f.status == FrameStatus::Active));
    }
    if n < c.docs.len() { return Err(format!("harness assumption broken: {} puts but {} frames", c.docs.len(), n)); }
    for (i, d) in c.docs.iter().enumerate() {
        if frames[i].0 != i as u64 || frames[i].1 != d.ts {
            return Err(format!("harness assumption broken: frame {i} is {:?}, doc ts {}", frames[i], d.ts));
        }
    }
    Ok(Built { _dir: dir, mem, frames })
}

struct Ctx<'a> {
    drv: Option<&'a mut Driver>,
    sum: &'a mut Summary,
    known: Vec<String>,
    verbose: bool,
}

fn run_query(b: &mut Built, c: &Case, qi: usize, cx: &mut Ctx) {
    let q = &c.queries[qi];
    let text = query_text(q);
    let frames = b.frames.clone();
    let nfr = frames.len();
    let one = Case { docs: c.docs.clone(), deletes: c.deletes.clone(), queries: vec![q.clone()] };
    let input = case_json(&one);
    let big = 4 * nfr + 50;
    let has_as_of = q.as_of_frame.is_some() || q.as_of_ts.is_some();

    // (1) the real code
    let filtered = do_search(&mut b.mem, request(q, &text, true, q.top_k, q.cursor, q.no_sketch));
    let unf_page = do_search(&mut b.mem, request(q, &text, false, q.top_k, q.cursor, q.no_sketch));
    let unf_full = do_search(&mut b.mem, request(q, &text, false, big, None, q.no_sketch));
    let truth = do_search(&mut b.mem, request(q, &text, false, big, None, true));
    // inputs of the candidate-filter computation, through the hooks / public API
    let replay_real: Option<Vec<u64>> = if has_as_of {
        b.mem.verif_replay_frame_ids(&request(q, &text, true, q.top_k, q.cursor, q.no_sketch)).ok()
    } else { None };
    let date_real = b.mem.verif_date_range_frame_ids(&text).unwrap_or(None);
    let has_text = !q.words.is_empty();
    let sketch_real: Option<Vec<u64>> = if b.mem.has_sketches() && has_text && !q.no_sketch {
        let opts = SketchSearchOptions { hamming_threshold: 32, max_candidates: (q.top_k * 10).max(500), min_score: 0.0 };
        Some(b.mem.find_sketch_candidates(&text, Some(opts)).iter().map(|c| c.frame_id).collect())
    } else { None };

    // (2) the model
    let m_known: Vec<u64> = (0..c.docs.len()).filter(|i| frames[*i].2 && doc_matches(&c.docs[*i], q)).map(|i| i as u64).collect();
    let frames_s = if frames.is_empty() { "-".to_string() } else {
        frames.iter().map(|(i, t, a)| format!("{i}:{t}:{}", if *a { 1 } else { 0 })).collect::<Vec<_>>().join(",")
    };
    let date_s = match &date_real {
        None => "absent".to_string(),
        Some((true, _)) => "empty".to_string(),
        Some((false, None)) => "noindex".to_string(),
        Some((false, Some(v))) => format!("ids={}", ids(v)),
    };
    let sketch_s = match &sketch_real { None => "off".to_string(), Some(v) => format!("ids={}", ids(v)) };
    let line = format!("flt fix {} {} {} {} {} {} {} {}", frames_s, date_s,
        q.as_of_frame.map_or("none".to_string(), |x| x.to_string()),
        q.as_of_ts.map_or("none".to_string(), |x| x.to_string()),
        sketch_s, q.top_k, q.cursor.unwrap_or(0), ids(&m_known));
    let model = cx.drv.as_mut().map(|d| d.ask(&line));
    let model_cur = if cx.verbose { cx.drv.as_mut().map(|d| d.ask(&line.replacen("flt fix", "flt cur", 1))) } else { None };

    if cx.verbose {
        println!("query   : {text:?}  as_of_frame={:?} as_of_ts={:?} no_sketch={} top_k={} cursor={:?}", q.as_of_frame, q.as_of_ts, q.no_sketch, q.top_k, q.cursor);
        println!("frames  : {frames_s}");
        println!("impl    : filtered hits={} total={} next={:?} engine={} err={:?}", ids(&filtered.hits), filtered.total, filtered.next, filtered.engine, filtered.err);
        println!("impl    : unfiltered page hits={} | unfiltered complete hits={} | complete no_sketch={}", ids(&unf_page.hits), ids(&unf_full.hits), ids(&truth.hits));
        println!("impl    : replay={:?} date={date_s} sketch={sketch_s}", replay_real.as_ref().map(|v| ids(v)));
        println!("request : {line}");
        println!("model   : (repaired rule) {}", model.clone().unwrap_or_else(|| "-".into()));
        println!("model   : (current rule)  {}", model_cur.unwrap_or_else(|| "-".into()));
    }

    // branches
    let s = &mut *cx.sum;
    s.branch(if q.no_sketch { "no-sketch" } else { "sketch-requested" });
    if sketch_real.as_ref().is_some_and(|v| !v.is_empty()) { s.branch("sketch-applied"); }
    if q.as_of_frame.is_some() && q.as_of_ts.is_none() { s.branch("as-of-frame"); }
    if q.as_of_ts.is_some() && q.as_of_frame.is_none() { s.branch("as-of-ts"); }
    if q.as_of_ts.is_some() && q.as_of_frame.is_some() { s.branch("as-of-both"); }
    if !has_as_of { s.branch("no-as-of"); }
    if q.date.is_some() { s.branch("date-range"); }
    if matches!(date_real, Some((true, _))) { s.branch("date-range-empty"); }
    if matches!(&date_real, Some((false, Some(v))) if v.is_empty()) { s.branch("date-no-frames"); }
    if replay_real.as_ref().is_some_and(|v| v.is_empty()) { s.branch("replay-empty"); }
    if q.cursor.is_some() { s.branch("paged"); }
    if frames.iter().any(|f| !f.2) { s.branch("deleted-frames"); }
    if !filtered.hits.is_empty() { s.branch("filtered-has-hits"); }
    if let Some(e) = &filtered.err { s.branch(if e.contains("cursor") { "err-cursor" } else { "err-other" }); }

    // (3) model vs implementation
    if let Some(model) = &model {
        let mut diffs: Vec<String> = Vec::new();
        let rep_m = field(model, "replay");
        let rep_i = replay_real.as_ref().map_or("none".to_string(), |v| ids(v));
        if rep_m != rep_i { diffs.push(format!("replay ids: model {rep_m} impl {rep_i}")); }
        let cand = set(&parse_ids(field(model, "cand")));
        let count: usize = field(model, "count").parse().unwrap_or(usize::MAX);
        let det = field(model, "det") == "1";
        let out = field(model, "out");
        let hs = set(&filtered.hits);
        if out == "empty" { s.branch("model-early-empty"); } else if out == "all" { s.branch("model-no-filter"); } else { s.branch("model-filter-set"); }
        if !det { s.branch("doc-limit-binds"); }
        if sketch_real.as_ref().is_some_and(|v| !v.is_empty()) && out == "empty" && replay_real.as_ref().is_some_and(|v| !v.is_empty())
            && !matches!(&date_real, Some((true, _))) && !matches!(&date_real, Some((false, Some(v))) if v.is_empty()) {
            s.branch("sketch-intersection-empty");
        }
        // E2 sanity: the harness's notion of "matches" is the engine's
        if truth.err.is_none() && set(&truth.hits) != set(&m_known) {
            diffs.push(format!("engine assumption (complete unfiltered no_sketch search = documents containing the words): impl {} harness {}", ids(&truth.hits), ids(&m_known)));
        }
        if filtered.err.is_none() || filtered.err.as_deref().is_some_and(|e| e.contains("cursor")) {
            if !hs.is_subset(&cand) {
                diffs.push(format!("hits outside the model's candidate set: impl {} model cand {}", ids(&filtered.hits), field(model, "cand")));
            } else if filtered.hits.len() != count {
                diffs.push(format!("hit count: impl {} model {}", filtered.hits.len(), count));
            } else if det && q.cursor.is_none() && q.top_k >= cand.len() && hs != cand {
                diffs.push(format!("hit set: impl {} model {}", ids(&filtered.hits), field(model, "cand")));
            }
        } else {
            diffs.push(format!("search failed: {:?}", filtered.err));
        }
        if !diffs.is_empty() {
            s.disagreement(&diffs.join("; "), input.clone(), model, &format!("hits={} replay={rep_i}", ids(&filtered.hits)));
        }
    }

    // (4) property oracle on the implementation's outputs
    let mut bad: Vec<(String, String)> = Vec::new();
    for h in &filtered.hits {
        match frames.get(*h as usize) {
            None => bad.push(("hit-is-not-a-frame".into(), format!("hit {h} is not a frame of the file"))),
            Some((_, ts, active)) => {
                if let Some(n) = q.as_of_frame { if *h > n { bad.push(("hit-after-as-of-frame".into(), format!("as_of_frame={n} but hit frame {h} returned (query {text:?}, no_sketch={})", q.no_sketch))); } }
                if let Some(t) = q.as_of_ts { if *ts > t { bad.push(("hit-after-as-of-ts".into(), format!("as_of_ts={t} but hit frame {h} has timestamp {ts} (query {text:?}, no_sketch={})", q.no_sketch))); } }
                if has_as_of && !*active { bad.push(("hit-inactive-frame".into(), format!("time-travel search returned inactive frame {h}"))); }
            }
        }
    }
    if has_as_of && filtered.err.is_none() {
        let full = set(&unf_full.hits);
        let extra: Vec<u64> = set(&filtered.hits).difference(&full).copied().collect();
        if unf_full.err.is_none() && !extra.is_empty() {
            bad.push(("filter-added-hit".into(), format!("hits {} of the search with as_of_* are not hits of the complete search without it ({})", ids(&extra), ids(&unf_full.hits))));
        }
    }
    if let Some((sig, what)) = bad.first() {
        s.oracle_violation(sig, what, input.clone());
    } else if has_as_of && filtered.err.is_none() && unf_page.err.is_none() {
        // literal reading of the second clause: same top_k / cursor with and without the filter
        let page = set(&unf_page.hits);
        let extra: Vec<u64> = set(&filtered.hits).difference(&page).copied().collect();
        if !extra.is_empty() {
            let what = format!("top_k={} cursor={:?}: hits {} of the search with as_of_* are not on the page of the same search without it ({}); they are hits of the complete unfiltered result", q.top_k, q.cursor, ids(&extra), ids(&unf_page.hits));
            let predicted = model.as_ref().is_none_or(|m| field(m, "full") == "0");
            let truncated = unf_page.next.is_some() || q.cursor.is_some() || unf_page.hits.len() < unf_full.hits.len();
            if predicted && truncated && cx.known.iter().any(|k| k == SIG_PAGE) {
                s.branch("page-level-known");
                s.known_finding(SIG_PAGE, &what, input.clone());
            } else {
                s.oracle_violation(SIG_PAGE, &what, input.clone());
            }
        } else { s.branch("page-level-subset-holds"); }
    }

    let canon = format!("{}|{}|{}|{:?}|{:?}|{}|{}|{:?}|{}", frames_s, text, ids(&filtered.hits), q.as_of_frame, q.as_of_ts, q.no_sketch, q.top_k, q.cursor, c.deletes.len());
    let nontrivial = has_as_of && !m_known.is_empty();
    s.case(&canon, nontrivial, || json!({"frames": nfr, "query": text, "as_of_frame": q.as_of_frame, "as_of_ts": q.as_of_ts,
        "no_sketch": q.no_sketch, "top_k": q.top_k, "matching": m_known.len(), "hits": filtered.hits, "unfiltered_hits": unf_full.hits.len()}));
}

fn run_case(c: &Case, cx: &mut Ctx) {
    let built = guarded({ let c = c.clone(); move || build(&c) });
    let mut b = match built {
        Ok(Ok(b)) => b,
        Ok(Err(e)) => { cx.sum.notes.push(format!("build failed: {e}")); cx.sum.disagreement(&format!("corpus could not be built: {e}"), case_json(c), "-", &e); return; }
        Err(p) => { cx.sum.oracle_violation("panic-while-building", &p, case_json(c)); return; }
    };
    for qi in 0..c.queries.len() {
        run_query(&mut b, c, qi, cx);
    }
}

// ------------------------------------------------------------------------------------------ generator
fn gen_docs(rng: &mut Rng, n: usize) -> Vec<Doc> {
    let style = rng.below(4);
    let vocab_n = match rng.below(3) { 0 => 4, 1 => 8, _ => VOCAB.len() };
    let mut ts_pool: Vec<i64> = (0..(n / 2).max(2)).map(|_| TS_BASE + rng.i64(0, 400) * 600).collect();
    ts_pool.sort();
    (0..n).map(|i| {
        let pool = if style == 0 && i < n / 2 { vocab_n / 2 + 1 } else { vocab_n };
        let k = rng.usize(1, 4).min(pool);
        let mut words: Vec<usize> = Vec::new();
        while words.len() < k {
            // style 0: rare words appear late (the witness shape: the query word only exists after the cut-off)
            let w = rng.usize(0, pool - 1);
            if !words.contains(&w) { words.push(w); }
        }
        let ts = match style {
            1 => TS_BASE + (i as i64) * 600,                       // increasing with the id
            2 => TS_BASE + ((n - i) as i64) * 600,                 // decreasing
            _ => *rng.pick(&ts_pool),                              // ties, unrelated to the id
        };
        Doc { words, ts }
    }).collect()
}

fn gen_query(rng: &mut Rng, docs: &[Doc]) -> Query {
    let n = docs.len();
    let mut q = Query::default();
    let wd = rng.pick(docs).words.clone();
    let w0 = *rng.pick(&wd);
    q.words = vec![w0];
    match rng.below(10) {
        0 | 1 => { let d = rng.pick(docs).clone(); q.words = d.words.iter().copied().take(2).collect(); }
        2 => { q.words.push(rng.usize(0, VOCAB.len() - 1)); q.words.dedup(); q.or = true; }
        3 => { q.words = vec![rng.usize(0, VOCAB.len() - 1)]; }
        _ => {}
    }
    let first_match = docs.iter().position(|d| doc_matches(d, &q));
    let kind = rng.below(20);
    if kind < 8 || kind >= 17 {
        q.as_of_frame = Some(match rng.below(8) {
            0 => 0,
            1 => n as u64 - 1,
            2 => n as u64 + rng.below(5),
            3 | 4 => first_match.map_or(0, |p| (p as u64).saturating_sub(1)),   // just before the first match
            5 => first_match.map_or(0, |p| p as u64),
            6 => u64::MAX,
            _ => rng.below(n as u64),
        });
    }
    if (8..14).contains(&kind) || kind >= 17 {
        let t = rng.pick(docs).ts;
        let lo = docs.iter().map(|d| d.ts).min().unwrap();
        let hi = docs.iter().map(|d| d.ts).max().unwrap();
        q.as_of_ts = Some(match rng.below(8) {
            0 => lo - 1,
            1 => lo,
            2 => hi,
            3 => hi + 1000,
            4 => t - 1,
            5 => first_match.map_or(t, |p| docs[p].ts - 1),
            _ => t,
        });
    }
    q.no_sketch = rng.chance(2, 5);
    if rng.chance(1, 4) {
        let mut a = rng.pick(docs).ts;
        let mut b = rng.pick(docs).ts;
        if a > b { std::mem::swap(&mut a, &mut b); }
        q.date = Some(match rng.below(8) {
            0 => (Some(b + 1), Some(a)),                    // empty range when a < b + 1
            1 => (Some(a), None),
            2 => (None, Some(b)),
            3 => (Some(b + 100_000_000), Some(b + 200_000_000)), // no frame inside
            _ => (Some(a), Some(b)),
        });
        if rng.chance(1, 10) { q.words.clear(); q.or = false; }   // field-only query: no sketch stage
    }
    let matching = docs.iter().filter(|d| doc_matches(d, &q)).count();
    match rng.below(10) {
        0..=4 => { q.top_k = 4 * n + 50; }
        5 => { q.top_k = 10; }
        6 => { q.top_k = rng.usize(1, 5); }
        7 => { q.top_k = matching.max(1); }
        8 => { q.top_k = (matching / 5).max(1); }                       // doc_limit = 4*top_k < matches
        _ => { q.top_k = rng.usize(1, 6); q.cursor = Some(rng.usize(0, (matching + 1).min(30))); }
    }
    q
}

fn gen_case(rng: &mut Rng, thorough: bool, index: usize) -> Case {
    // building a file costs seconds, a query milliseconds: few files, many queries per file
    let n = match index % 5 {
        0 => rng.usize(10, 25),
        1 => rng.usize(26, 60),
        2 => rng.usize(100, 120),
        3 => rng.usize(2, 9),
        _ => rng.usize(61, 99),
    };
    let docs = gen_docs(rng, n);
    let mut deletes = Vec::new();
    if index % 3 == 1 {
        for _ in 0..rng.usize(1, 3) { deletes.push(rng.below(n as u64)); }
        deletes.sort(); deletes.dedup();
    }
    let nq = if thorough { 300 } else { 220 };
    let queries = (0..nq).map(|_| gen_query(rng, &docs)).collect();
    Case { docs, deletes, queries }
}

fn fixed_corpus() -> Vec<Case> {
    let d = |words: &[usize], ts: i64| Doc { words: words.to_vec(), ts };
    let q = |words: &[usize], aof: Option<u64>, aot: Option<i64>, no_sketch: bool, top_k: usize| Query {
        words: words.to_vec(), as_of_frame: aof, as_of_ts: aot, no_sketch, top_k, ..Default::default()
    };
    let mut big: Vec<Doc> = (0..30).map(|i| d(&[3], TS_BASE + i * 86_400)).collect();
    big.extend([d(&[4], TS_BASE), d(&[4], TS_BASE), d(&[4, 5], TS_BASE), d(&[5], TS_BASE + 1)]);
    vec![
        // the witness: word 1 exists only in frame 1, as_of_frame = 0 / as_of_ts = ts(frame 0);
        // word 2 is in both frames: with top_k = 1 the newer frame wins the unfiltered page
        Case { docs: vec![d(&[0, 2], TS_BASE), d(&[1, 2], TS_BASE + 86_400 * 30)], deletes: vec![],
               queries: vec![q(&[1], Some(0), None, false, 10), q(&[1], Some(0), None, true, 10),
                             q(&[1], None, Some(TS_BASE), false, 10), q(&[1], None, Some(TS_BASE), true, 10),
                             q(&[1], Some(1), None, false, 10), q(&[0], Some(0), None, false, 10),
                             q(&[2], Some(0), None, true, 1), q(&[2], Some(0), None, false, 1), q(&[2], Some(0), None, true, 10)] },
        // more matching frames than doc_limit (top_k = 1 → doc_limit = 20); a deleted frame inside the
        // bound and ties on the timestamp (frames 30..33, frame 31 deleted)
        Case { docs: big, deletes: vec![31],
               queries: vec![q(&[3], Some(4), None, true, 1), q(&[3], Some(4), None, false, 1), q(&[3], Some(25), None, true, 5),
                             q(&[3], None, Some(TS_BASE + 3 * 86_400), true, 200),
                             q(&[4], Some(32), None, false, 50), q(&[4], None, Some(TS_BASE), true, 50), q(&[5], Some(32), Some(TS_BASE), false, 50)] },
    ]
}

fn main() {
    let args = parse_args();
    let use_model = args.driver.to_str() != Some("none");
    let mut drv = if use_model { Some(Driver::spawn(&args.driver).expect("spawn driver")) } else { None };
    let mut sum = Summary::new("C11", &args,
        "real .mv2 files: 2 fixed + 5 (quick) / 60 (thorough) generated files of 2-120 single-chunk documents over a 12-word vocabulary, explicit timestamps (ties / increasing / \
         decreasing), optional deletions; 220-300 queries per file: 1-2 words (AND / OR), optional date:[a TO b] (incl. empty and \
         out-of-corpus ranges, field-only), as_of_frame / as_of_ts / both / none (biased to just before the first match, corpus \
         bounds, beyond), sketch pre-filter on/off, top_k large / 10 / small / below matches/4, cursors; each query also run \
         without as_of_* (same page and complete); non-trivial = time-travel bound given and at least one document matches; \
         distinct = frames+query+bounds+flags+hits");
    sum.expect_branches(&["sketch-applied", "no-sketch", "as-of-frame", "as-of-ts", "as-of-both", "no-as-of", "date-range",
        "replay-empty", "model-early-empty", "model-filter-set", "model-no-filter", "sketch-intersection-empty",
        "doc-limit-binds", "paged", "deleted-frames", "filtered-has-hits", "page-level-subset-holds"]);
    let known: Vec<String> = args.extra.get("known").map(|s| s.split(',').map(|x| x.to_string()).collect()).unwrap_or_default();
    if let Some(d) = drv.as_mut() {
        let c = d.ask("consts");
        if c != "4 20 32 10 500" {
            sum.disagreement("constants of try_tantivy_search / sketch pre-filter differ from the harness's", json!({"consts": c}), &c, "4 20 32 10 500");
        }
    }
    if args.mode == "replay" {
        let case = load_replay(args.replay_file.as_ref().expect("replay file"));
        let input = case.get("input").unwrap_or(&case);
        let c = case_from(input);
        let mut cx = Ctx { drv: drv.as_mut(), sum: &mut sum, known, verbose: true };
        run_case(&c, &mut cx);
        sum.finish(&args);
    }
    let mut rng = Rng::new(args.seed);
    let n = if args.thorough { 60 } else { 5 };
    {
        let mut cx = Ctx { drv: drv.as_mut(), sum: &mut sum, known, verbose: false };
        for c in fixed_corpus() { run_case(&c, &mut cx); }
        for i in 0..n {
            let c = gen_case(&mut rng, args.thorough, i);
            run_case(&c, &mut cx);
        }
    }
    sum.model_requests = drv.as_ref().map_or(0, |d| d.requests);
    sum.finish(&args);
}
