/-
  C27: tracks built by `add_card` (from `MemoriesTrack::new` / after `clear`) — what `get_cards`
  returns: exactly the cards whose lower-cased "entity:slot" key equals the query's, newest first.
-/
import MvProps.C27Lemmas
namespace Mv.Cards

/-- tracks reachable through the public mutators -/
inductive Reachable (lower : Bytes → Bytes) : Track → Prop where
  | empty : Reachable lower Track.empty
  | add (tr : Track) (c : Card) : Reachable lower tr → Reachable lower (tr.addCard lower c).1

def Card.key (lower : Bytes → Bytes) (c : Card) : Bytes := slotKey lower c.entity c.slot

/-- exact lookup, the first step of `SlotIndex::get` -/
def indexLookup (ix : Index) (k : Bytes) : Option (List Nat) :=
  (ix.find? (fun p => decide (p.1 = k))).map (·.2)

/-- ids of the cards stored under key `k`, newest first -/
def keyIds (lower : Bytes → Bytes) (tr : Track) (k : Bytes) : List Nat :=
  ((tr.cards.filter (fun c => decide (c.key lower = k))).map (·.id)).reverse

theorem indexLookup_insert (ix : Index) (k k' : Bytes) (id : Nat) :
    indexLookup (indexInsert ix k id) k' =
      if k' = k then some (id :: (indexLookup ix k).getD []) else indexLookup ix k' := by
  induction ix with
  | nil =>
    by_cases h : k' = k
    · subst h; simp [indexInsert, indexLookup]
    · have h' : ¬ k = k' := fun e => h e.symm
      simp [indexInsert, indexLookup, h, h']
  | cons p rest ih =>
    obtain ⟨pk, pids⟩ := p
    unfold indexInsert
    by_cases hpk : pk = k
    · subst hpk
      by_cases h : k' = pk
      · subst h; simp [indexLookup]
      · have h' : ¬ pk = k' := fun e => h e.symm
        simp [indexLookup, h, h']
    · simp only [hpk, if_false]
      by_cases h : k' = k
      · subst h
        have : indexLookup ((pk, pids) :: indexInsert rest k' id) k' = indexLookup (indexInsert rest k' id) k' := by
          simp [indexLookup, hpk]
        rw [this, ih]
        simp [indexLookup, hpk]
      · simp only [h, if_false] at ih ⊢
        by_cases h2 : pk = k'
        · subst h2; simp [indexLookup]
        · have e1 : indexLookup ((pk, pids) :: indexInsert rest k id) k' = indexLookup (indexInsert rest k id) k' := by
            simp [indexLookup, h2]
          have e2 : indexLookup ((pk, pids) :: rest) k' = indexLookup rest k' := by
            simp [indexLookup, h2]
          rw [e1, e2, ih]

theorem mem_indexInsert_key (ix : Index) (k : Bytes) (id : Nat) (p : Bytes × List Nat)
    (hp : p ∈ indexInsert ix k id) : p.1 = k ∨ ∃ q ∈ ix, q.1 = p.1 := by
  induction ix with
  | nil => simp [indexInsert] at hp; left; rw [hp]
  | cons q rest ih =>
    obtain ⟨qk, qids⟩ := q
    unfold indexInsert at hp
    split at hp
    · rename_i hq
      rcases List.mem_cons.1 hp with rfl | hm
      · left; exact hq
      · right; exact ⟨p, List.mem_cons_of_mem _ hm, rfl⟩
    · rcases List.mem_cons.1 hp with rfl | hm
      · right; exact ⟨(qk, qids), List.mem_cons_self, rfl⟩
      · rcases ih hm with h | ⟨q', hq', he⟩
        · left; exact h
        · right; exact ⟨q', List.mem_cons_of_mem _ hq', he⟩

/-- what `add_card` does, field by field -/
theorem addCard_spec (lower : Bytes → Bytes) (tr : Track) (c : Card) :
    ∃ c2 : Card, (tr.addCard lower c).1.cards = tr.cards ++ [c2] ∧ c2.id = tr.nextId ∧
      c2.entity = c.entity ∧ c2.slot = c.slot ∧ c2.rel = c.rel ∧ c2.effTs = c.effTs ∧
      (tr.addCard lower c).1.nextId = tr.nextId + 1 ∧
      (tr.addCard lower c).1.index = indexInsert tr.index (slotKey lower c.entity c.slot) tr.nextId ∧
      (tr.addCard lower c).2 = tr.nextId := by
  unfold Track.addCard
  cases hv : c.versionKey with
  | none => exact ⟨_, rfl, rfl, rfl, rfl, rfl, rfl, rfl, rfl, rfl⟩
  | some v => exact ⟨_, rfl, rfl, rfl, rfl, rfl, rfl, rfl, rfl, rfl⟩

structure Wf (lower : Bytes → Bytes) (tr : Track) : Prop where
  ids : tr.cards.map (·.id) = List.range tr.nextId
  index : ∀ k, indexLookup tr.index k = if keyIds lower tr k = [] then none else some (keyIds lower tr k)
  keys : ∀ p ∈ tr.index, ∃ e s, p.1 = slotKey lower e s

theorem wf_empty (lower : Bytes → Bytes) : Wf lower Track.empty := by
  refine ⟨rfl, ?_, ?_⟩
  · intro k; simp [Track.empty, indexLookup, keyIds]
  · intro p hp; simp [Track.empty] at hp

theorem wf_add (lower : Bytes → Bytes) (tr : Track) (c : Card) (wf : Wf lower tr) :
    Wf lower (tr.addCard lower c).1 := by
  obtain ⟨c2, hcards, hid, hent, hslot, _, _, hnext, hindex, _⟩ := addCard_spec lower tr c
  have hkey : c2.key lower = slotKey lower c.entity c.slot := by simp [Card.key, hent, hslot]
  refine ⟨?_, ?_, ?_⟩
  · rw [hcards, hnext, List.map_append, wf.ids, List.range_succ]; simp [hid]
  · intro k
    have hk : keyIds lower (tr.addCard lower c).1 k =
        (if c2.key lower = k then [tr.nextId] else []) ++ keyIds lower tr k := by
      unfold keyIds
      rw [hcards, List.filter_append, List.map_append, List.reverse_append]
      by_cases h : c2.key lower = k
      · simp [h, hid]
      · simp [h]
    rw [hk, hindex, indexLookup_insert, wf.index]
    by_cases h : k = slotKey lower c.entity c.slot
    · have h' : c2.key lower = k := by rw [hkey, h]
      subst h
      simp only [if_true, h']
      by_cases he : keyIds lower tr (slotKey lower c.entity c.slot) = []
      · simp [he]
      · simp [he]
    · have h' : ¬ c2.key lower = k := by rw [hkey]; exact fun e => h e.symm
      simp only [h, h', if_false, List.nil_append]
      exact wf.index k
  · intro p hp
    rw [hindex] at hp
    rcases mem_indexInsert_key _ _ _ p hp with h | ⟨q, hq, he⟩
    · exact ⟨c.entity, c.slot, h⟩
    · obtain ⟨e, s, hes⟩ := wf.keys q hq
      exact ⟨e, s, by rw [← he, hes]⟩

theorem wf_of_reachable {lower : Bytes → Bytes} {tr : Track} (h : Reachable lower tr) : Wf lower tr := by
  induction h with
  | empty => exact wf_empty lower
  | add tr c _ ih => exact wf_add lower tr c ih

/-! ### looking cards up by id -/

theorem findCard_of_mem {cards : List Card} (hn : (cards.map (·.id)).Nodup) {c : Card} (hc : c ∈ cards) :
    findCard cards c.id = some c := by
  induction cards with
  | nil => cases hc
  | cons x xs ih =>
    rw [List.map_cons, List.nodup_cons] at hn
    unfold findCard
    rw [List.find?_cons]
    by_cases hx : x.id = c.id
    · simp only [hx, decide_true]
      rcases List.mem_cons.1 hc with rfl | hm
      · rfl
      · exfalso; apply hn.1; rw [hx]; exact List.mem_map.2 ⟨c, hm, rfl⟩
    · simp only [hx, decide_false]
      rcases List.mem_cons.1 hc with rfl | hm
      · exact absurd rfl hx
      · exact ih hn.2 hm

theorem filterMap_findCard {cards : List Card} (hn : (cards.map (·.id)).Nodup) (l : List Card)
    (hl : ∀ c ∈ l, c ∈ cards) : (l.map (·.id)).filterMap (findCard cards) = l := by
  induction l with
  | nil => rfl
  | cons x xs ih =>
    rw [List.map_cons, List.filterMap_cons, findCard_of_mem hn (hl x List.mem_cons_self)]
    simp only
    rw [ih (fun c hc => hl c (List.mem_cons_of_mem _ hc))]

/-- **get_cards on a track built by add_card**: the cards filed under the query's lower-cased key,
    newest first.  `hfix`: slot keys are fixed points of lower-casing (true of `str::to_lowercase`,
    checked by the harness on every generated key), so the legacy fallback never fires. -/
theorem getCards_spec {lower : Bytes → Bytes} {tr : Track} (h : Reachable lower tr)
    (hfix : ∀ e s, lower (slotKey lower e s) = slotKey lower e s) (e s : Bytes) :
    tr.getCards lower e s =
      (tr.cards.filter (fun c => decide (c.key lower = slotKey lower e s))).reverse := by
  have wf := wf_of_reachable h
  have hn : (tr.cards.map (·.id)).Nodup := by rw [wf.ids]; exact List.nodup_range
  have hix := wf.index (slotKey lower e s)
  unfold Track.getCards indexGet
  simp only
  unfold indexLookup at hix
  cases hf : tr.index.find? (fun p => decide (p.1 = slotKey lower e s)) with
  | some p =>
    rw [hf] at hix
    simp only [Option.map_some] at hix
    split at hix
    · cases hix
    · have hp : p.2 = keyIds lower tr (slotKey lower e s) := Option.some.inj hix
      simp only [hp]
      unfold keyIds
      rw [← List.map_reverse]
      apply filterMap_findCard hn
      intro c hc
      rw [List.mem_reverse] at hc
      exact (List.mem_filter.1 hc).1
  | none =>
    rw [hf] at hix
    simp only [Option.map_none] at hix
    have hnone : tr.index.find? (fun p => decide (lower p.1 = slotKey lower e s)) = none := by
      rw [List.find?_eq_none]
      intro p hp
      obtain ⟨e', s', hes⟩ := wf.keys p hp
      have := (List.find?_eq_none.1 hf) p hp
      simp only [decide_eq_true_eq] at this ⊢
      rw [hes, hfix]; rw [hes] at this; exact this
    simp only [hnone, Option.map_none]
    split at hix
    · rename_i hk
      unfold keyIds at hk
      have : tr.cards.filter (fun c => decide (c.key lower = slotKey lower e s)) = [] := by
        have := congrArg List.length hk
        simp at this
        exact List.eq_nil_of_length_eq_zero (by simpa using this)
      rw [this]; rfl
    · cases hix

/-- the slot list of a reachable track is strictly newest-first -/
theorem getCards_ids_desc {lower : Bytes → Bytes} {tr : Track} (h : Reachable lower tr)
    (hfix : ∀ e s, lower (slotKey lower e s) = slotKey lower e s) (e s : Bytes) :
    (tr.getCards lower e s).Pairwise (fun a b => b.id < a.id) := by
  rw [getCards_spec h hfix, List.pairwise_reverse]
  apply List.Pairwise.filter
  have wf := wf_of_reachable h
  have : (tr.cards.map (·.id)).Pairwise (· < ·) := by rw [wf.ids]; exact List.pairwise_lt_range
  exact List.pairwise_map.1 this

end Mv.Cards
