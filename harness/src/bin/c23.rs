//! C23 — determinism: the same calls produce identical bytes / identical logical state.
//!
//! impl : every history (create; put/update/delete/card/commit/reopen/vacuum/search with EXPLICIT timestamps)
//!        is executed twice by two separate CHILD PROCESSES of this binary (`c23 child <batch> <dir> <tag>`), on
//!        fresh paths in two different directories, the second run strictly later on the wall clock (so every
//!        clock read differs), with the per-process HashMap seeds, Tantivy segment uuids and temp names the
//!        operating system hands out.  Each child reports the results of every call and the logical observation
//!        (frames, contents, timeline, searches, cards) of the live handle and of a reopened copy.
//! model: drv_c23 — MvModel/Determinism.lean: the same history run on the model with two different oracle
//!        valuations; predicts frames/statuses/timeline, the file regions present and the set of regions whose
//!        bytes may depend on an oracle.
//! oracle: (1) logical observations of run A and run B are equal; (2) file bytes are equal; a byte difference is a
//!        recorded finding only when every differing region is in the model's may-differ set for that history
//!        and the finding's signature is listed; anything else is a violation.
use memvid_core::footer::find_last_valid_footer;
use memvid_core::io::header::HeaderCodec;
use memvid_core::types::Toc;
use memvid_core::{Memvid, MemoryCard, MemoryKind, PutOptions, SearchRequest, TimelineQuery, VersionRelation};
use mvh::*;
use std::collections::{BTreeMap, BTreeSet};
use std::num::NonZeroU64;
use std::path::{Path, PathBuf};
use std::process::Command;

const HEADER_SIZE: usize = 4096;
const FOOTER_SIZE: usize = 56;

// ===================================================================================== histories
// A history is a JSON object {"vec": bool, "ops": [...], "queries": [...]}; ops are JSON objects with "op".
fn s(v: &Value, k: &str) -> Option<String> { v.get(k).and_then(|x| x.as_str()).map(|x| x.to_string()) }
fn b(v: &Value, k: &str) -> bool { v.get(k).and_then(|x| x.as_bool()).unwrap_or(false) }
fn short(s: &str) -> String { s.chars().take(48).collect::<String>() }

fn put_options(op: &Value) -> PutOptions {
    let mut o = PutOptions::default();
    o.timestamp = op.get("ts").and_then(|x| x.as_i64());
    o.uri = s(op, "uri");
    o.title = s(op, "title");
    o.search_text = s(op, "search_text");
    o.tags = op.get("tags").and_then(|x| x.as_array()).map(|a| a.iter().filter_map(|t| t.as_str().map(|t| t.to_string())).collect()).unwrap_or_default();
    o.extract_triplets = b(op, "triplets");
    o.instant_index = b(op, "instant");
    o.auto_tag = b(op, "auto_tag");
    o.extract_dates = b(op, "dates");
    o
}

fn payload_of(op: &Value) -> Vec<u8> {
    if let Some(h) = s(op, "hex") { return unhexw(&h).unwrap_or_default(); }
    s(op, "text").unwrap_or_default().into_bytes()
}

fn res<T>(r: Result<memvid_core::Result<T>, String>, show: impl FnOnce(T) -> String) -> String {
    match r { Ok(Ok(v)) => format!("ok {}", show(v)), Ok(Err(e)) => format!("err {}", short(&e.to_string())), Err(p) => format!("panic {}", short(&p)) }
}

fn search_obs(mem: &mut Memvid, q: &str, k: usize) -> String {
    let req = SearchRequest { query: q.to_string(), top_k: k, snippet_chars: 80, uri: None, scope: None, cursor: None,
        as_of_frame: None, as_of_ts: None, no_sketch: false, acl_context: None, acl_enforcement_mode: Default::default() };
    match guarded(std::panic::AssertUnwindSafe(|| mem.search(req))) {
        Ok(Ok(r)) => format!("total={} next={:?} engine={:?} hits=[{}]", r.total_hits, r.next_cursor, r.engine,
            r.hits.iter().map(|h| format!("{}@{}..{}#{}:{}:{}:{}", h.frame_id, h.range.0, h.range.1, h.matches,
                h.score.map(|x| x.to_bits()).unwrap_or(0), b3short(h.text.as_bytes()), h.uri)).collect::<Vec<_>>().join(",")),
        Ok(Err(e)) => format!("err {}", short(&e.to_string())),
        Err(p) => format!("panic {}", short(&p)),
    }
}

/// logical observation of a handle: frames (all fields but the physical payload offset), contents, timeline,
/// searches, cards (created_at kept apart: it is a clock read for cards the triplet extractor builds)
fn observe(mem: &mut Memvid, queries: &[String]) -> Value {
    let n = mem.frame_count() as u64;
    let mut frames = vec![];
    let mut layout = vec![];
    for id in 0..n {
        match mem.frame_by_id(id) {
            Ok(f) => {
                let mut j = serde_json::to_value(&f).unwrap_or(Value::Null);
                if let Some(o) = j.as_object_mut() { if let Some(off) = o.remove("payload_offset") { layout.push(off); } }
                let content = match guarded(std::panic::AssertUnwindSafe(|| mem.frame_canonical_payload(id))) {
                    Ok(Ok(bytes)) => format!("ok {} {}", bytes.len(), b3short(&bytes)), Ok(Err(e)) => format!("err {}", short(&e.to_string())), Err(p) => format!("panic {}", short(&p)) };
                let text = match guarded(std::panic::AssertUnwindSafe(|| mem.frame_text_by_id(id))) {
                    Ok(Ok(t)) => format!("ok {} {}", t.len(), b3short(t.as_bytes())), Ok(Err(e)) => format!("err {}", short(&e.to_string())), Err(p) => format!("panic {}", short(&p)) };
                frames.push(json!({"frame": j, "content": content, "text": text}));
            }
            Err(e) => frames.push(json!({"err": short(&e.to_string())})),
        }
    }
    let mut tls = vec![];
    for rev in [false, true] {
        let tq = TimelineQuery { limit: NonZeroU64::new(1000), since: None, until: None, reverse: rev };
        tls.push(match guarded(std::panic::AssertUnwindSafe(|| mem.timeline(tq))) {
            Ok(Ok(v)) => json!(v.iter().map(|e| json!([e.frame_id, e.timestamp, e.preview, e.uri, e.child_frames])).collect::<Vec<_>>()),
            Ok(Err(e)) => json!(format!("err {}", short(&e.to_string()))), Err(p) => json!(format!("panic {}", short(&p))) });
    }
    let searches: Vec<Value> = queries.iter().map(|q| json!([q, search_obs(mem, q, 10)])).collect();
    let mut cards = vec![];
    let mut created = vec![];
    for c in mem.memories().cards() {
        let mut j = serde_json::to_value(c).unwrap_or(Value::Null);
        if let Some(o) = j.as_object_mut() { if let Some(x) = o.remove("created_at") { created.push(x); } }
        cards.push(j);
    }
    json!({"frames": frames, "timeline": tls, "searches": searches, "cards": cards, "cards_created_at": created, "payload_offsets": layout})
}

/// run one history on a fresh path; returns the report (call results + observations)
fn execute(hist: &Value, path: &Path) -> Value {
    let queries: Vec<String> = hist.get("queries").and_then(|x| x.as_array()).map(|a| a.iter().filter_map(|q| q.as_str().map(|q| q.to_string())).collect()).unwrap_or_default();
    let mut results: Vec<String> = vec![];
    let mut mem = match Memvid::create(path) { Ok(m) => Some(m), Err(e) => { return json!({"fatal": format!("create: {e}")}); } };
    if b(hist, "vec") { results.push(res(Ok(mem.as_mut().unwrap().enable_vec()), |_| String::new())); }
    for op in hist["ops"].as_array().cloned().unwrap_or_default() {
        let kind = s(&op, "op").unwrap_or_default();
        let Some(m) = mem.as_mut() else { results.push("no-handle".into()); if kind != "reopen" { continue; } else { mem = Memvid::open(path).ok(); continue; } };
        let r = match kind.as_str() {
            "put" => {
                let payload = payload_of(&op);
                let o = put_options(&op);
                match op.get("embed").and_then(|x| x.as_array()) {
                    Some(e) => { let v: Vec<f32> = e.iter().map(|x| x.as_f64().unwrap_or(0.0) as f32).collect();
                        res(guarded(std::panic::AssertUnwindSafe(|| m.put_with_embedding_and_options(&payload, v, o))), |q| q.to_string()) }
                    None => res(guarded(std::panic::AssertUnwindSafe(|| m.put_bytes_with_options(&payload, o))), |q| q.to_string()),
                }
            }
            "update" => {
                let id = op["id"].as_u64().unwrap_or(0);
                let payload = if op.get("text").is_some() || op.get("hex").is_some() { Some(payload_of(&op)) } else { None };
                let o = put_options(&op);
                res(guarded(std::panic::AssertUnwindSafe(|| m.update_frame(id, payload, o, None))), |q| q.to_string())
            }
            "delete" => { let id = op["id"].as_u64().unwrap_or(0); res(guarded(std::panic::AssertUnwindSafe(|| m.delete_frame(id))), |q| q.to_string()) }
            "commit" => res(guarded(std::panic::AssertUnwindSafe(|| m.commit())), |_| String::new()),
            "vacuum" => res(guarded(std::panic::AssertUnwindSafe(|| m.vacuum())), |_| String::new()),
            "card" => {
                let c = MemoryCard { id: 0, kind: MemoryKind::Fact, entity: s(&op, "entity").unwrap_or_default(), slot: s(&op, "slot").unwrap_or_default(),
                    value: s(&op, "value").unwrap_or_default(), polarity: None, event_date: op.get("event").and_then(|x| x.as_i64()), document_date: None,
                    version_key: None, version_relation: VersionRelation::Sets, source_frame_id: op.get("frame").and_then(|x| x.as_u64()).unwrap_or(0),
                    source_uri: None, source_offset: None, engine: "c23".into(), engine_version: "1".into(), confidence: None,
                    created_at: op.get("created").and_then(|x| x.as_i64()).unwrap_or(0) };
                res(guarded(std::panic::AssertUnwindSafe(|| m.put_memory_card(c))), |q| q.to_string())
            }
            "search" => search_obs(m, &s(&op, "q").unwrap_or_default(), op.get("k").and_then(|x| x.as_u64()).unwrap_or(5) as usize),
            "reopen" => {
                mem = None;
                match guarded(|| Memvid::open(path)) { Ok(Ok(m2)) => { mem = Some(m2); "ok".into() } Ok(Err(e)) => format!("err {}", short(&e.to_string())), Err(p) => format!("panic {}", short(&p)) }
            }
            _ => "bad-op".into(),
        };
        results.push(r);
    }
    let live = match mem.as_mut() { Some(m) => observe(m, &queries), None => json!("no-handle") };
    drop(mem);
    // the file as the calls left it stays at `path`; a COPY is reopened (open may replay the WAL in place)
    let copy = path.with_extension("copy.mv2");
    let reopened = match std::fs::copy(path, &copy) {
        Ok(_) => match guarded(|| Memvid::open(&copy)) {
            Ok(Ok(mut m)) => observe(&mut m, &queries),
            Ok(Err(e)) => json!(format!("err {}", short(&e.to_string()))), Err(p) => json!(format!("panic {}", short(&p))) },
        Err(e) => json!(format!("copy failed {e}")),
    };
    let _ = std::fs::remove_file(&copy);
    json!({"results": results, "live": live, "reopened": reopened})
}

fn child_main(argv: &[String]) -> ! {
    let batch: Value = serde_json::from_str(&std::fs::read_to_string(&argv[2]).expect("read batch")).expect("parse batch");
    let dir = PathBuf::from(&argv[3]);
    let tag = &argv[4];
    let mut out = vec![];
    for (i, h) in batch.as_array().expect("batch array").iter().enumerate() {
        let path = dir.join(format!("h{i}.mv2"));
        out.push(execute(h, &path));
    }
    std::fs::write(dir.join(format!("report-{tag}.json")), serde_json::to_string(&out).unwrap()).expect("write report");
    std::process::exit(0);
}

// ===================================================================================== regions
/// (kind, bytes) of every region of a file, kinds: header wal payload time lex vec memories mesh sketch toc footer gap other
fn regions(bytes: &[u8]) -> Result<BTreeMap<String, Vec<u8>>, String> {
    if bytes.len() < HEADER_SIZE + FOOTER_SIZE { return Err("short file".into()); }
    let hb: &[u8; HEADER_SIZE] = bytes[..HEADER_SIZE].try_into().unwrap();
    let hdr = HeaderCodec::decode(hb).map_err(|e| format!("header: {e}"))?;
    let foot = find_last_valid_footer(bytes).ok_or("no valid footer")?;
    let toc = Toc::decode(foot.toc_bytes).map_err(|e| format!("toc: {e}"))?;
    let len = bytes.len();
    let mut marks: Vec<(usize, usize, &'static str)> = vec![];
    let mut add = |o: u64, l: u64, k: &'static str| { let (a, e) = (o as usize, (o + l) as usize); if e > a && e <= len { marks.push((a, e, k)); } };
    add(0, HEADER_SIZE as u64, "header");
    add(hdr.wal_offset, hdr.wal_size, "wal");
    for f in &toc.frames { add(f.payload_offset, f.payload_length, "payload"); }
    if let Some(m) = &toc.time_index { add(m.bytes_offset, m.bytes_length, "time"); }
    if let Some(m) = &toc.indexes.lex { add(m.bytes_offset, m.bytes_length, "lex"); }
    if let Some(m) = &toc.indexes.vec { add(m.bytes_offset, m.bytes_length, "vec"); }
    if let Some(m) = &toc.memories_track { add(m.bytes_offset, m.bytes_length, "memories"); }
    if let Some(m) = &toc.logic_mesh { add(m.bytes_offset, m.bytes_length, "mesh"); }
    if let Some(m) = &toc.sketch_track { add(m.bytes_offset, m.bytes_length, "sketch"); }
    for x in &toc.segment_catalog.tantivy_segments { add(x.common.bytes_offset, x.common.bytes_length, "lex"); }
    for x in &toc.indexes.lex_segments { add(x.bytes_offset, x.bytes_length, "lex"); }
    for x in &toc.segment_catalog.vec_segments { add(x.common.bytes_offset, x.common.bytes_length, "vec"); }
    for x in &toc.segment_catalog.time_segments { add(x.common.bytes_offset, x.common.bytes_length, "time"); }
    for x in &toc.segment_catalog.lex_segments { add(x.common.bytes_offset, x.common.bytes_length, "lex"); }
    add(foot.toc_offset as u64, foot.toc_bytes.len() as u64, "toc");
    add(foot.footer_offset as u64, FOOTER_SIZE as u64, "footer");
    let mut owner: Vec<u8> = vec![255; len];
    const KINDS: [&str; 13] = ["header", "wal", "payload", "time", "lex", "vec", "memories", "mesh", "sketch", "toc", "footer", "gap", "tail"];
    for (a, e, k) in &marks { let ki = KINDS.iter().position(|x| x == k).unwrap() as u8; for o in *a..*e { if owner[o] == 255 { owner[o] = ki; } } }
    let tail_from = foot.footer_offset + FOOTER_SIZE;
    let mut out: BTreeMap<String, Vec<u8>> = BTreeMap::new();
    for (o, byte) in bytes.iter().enumerate() {
        let k = if owner[o] != 255 { KINDS[owner[o] as usize] } else if o >= tail_from { "tail" } else { "gap" };
        out.entry(k.to_string()).or_default().push(*byte);
    }
    Ok(out)
}

/// kinds of regions that differ between the two files (a kind present in one file only differs)
fn differing_regions(a: &[u8], bb: &[u8]) -> Result<(BTreeSet<String>, BTreeSet<String>), String> {
    let (ra, rb) = (regions(a)?, regions(bb)?);
    let mut diff = BTreeSet::new();
    let kinds: BTreeSet<String> = ra.keys().chain(rb.keys()).cloned().collect();
    for k in &kinds { if ra.get(k) != rb.get(k) { diff.insert(k.clone()); } }
    Ok((diff, ra.keys().cloned().collect()))
}

// ===================================================================================== twin runs
struct Twin { a: Value, b: Value, file_a: Vec<u8>, file_b: Vec<u8> }

fn run_child(exe: &Path, batch_file: &Path, dir: &Path, tag: &str) -> Result<Vec<Value>, String> {
    std::fs::create_dir_all(dir).map_err(|e| e.to_string())?;
    let st = Command::new(exe).arg("child").arg(batch_file).arg(dir).arg(tag).env("TMPDIR", dir).status().map_err(|e| e.to_string())?;
    if !st.success() { return Err(format!("child {tag} exited with {st}")); }
    let txt = std::fs::read_to_string(dir.join(format!("report-{tag}.json"))).map_err(|e| e.to_string())?;
    serde_json::from_str::<Vec<Value>>(&txt).map_err(|e| e.to_string())
}

fn now_secs() -> u64 { std::time::SystemTime::now().duration_since(std::time::UNIX_EPOCH).map(|d| d.as_secs()).unwrap_or(0) }

/// execute every history of the batch twice: child A, then (strictly later on the wall clock) child B
fn run_twins(batch: &[Value]) -> Result<Vec<Twin>, String> {
    let exe = std::env::current_exe().map_err(|e| e.to_string())?;
    let root = tempfile::tempdir().map_err(|e| e.to_string())?;
    let bf = root.path().join("batch.json");
    std::fs::write(&bf, serde_json::to_string(batch).unwrap()).map_err(|e| e.to_string())?;
    let (da, db) = (root.path().join("run-a"), root.path().join("run-b-second-execution"));
    let ra = run_child(&exe, &bf, &da, "a")?;
    let end_a = now_secs();
    while now_secs() <= end_a { std::thread::sleep(std::time::Duration::from_millis(50)); }
    let rb = run_child(&exe, &bf, &db, "b")?;
    let mut out = vec![];
    for i in 0..batch.len() {
        let fa = std::fs::read(da.join(format!("h{i}.mv2"))).unwrap_or_default();
        let fb = std::fs::read(db.join(format!("h{i}.mv2"))).unwrap_or_default();
        out.push(Twin { a: ra[i].clone(), b: rb[i].clone(), file_a: fa, file_b: fb });
    }
    Ok(out)
}

fn main() {
    let argv: Vec<String> = std::env::args().collect();
    if argv.get(1).map(|x| x.as_str()) == Some("child") { child_main(&argv); }
    if argv.get(1).map(|x| x.as_str()) == Some("probe") {
        let batch: Vec<Value> = serde_json::from_str(&std::fs::read_to_string(&argv[2]).unwrap()).unwrap();
        let tw = run_twins(&batch).unwrap();
        for (i, t) in tw.iter().enumerate() {
            let same = t.file_a == t.file_b;
            let d = differing_regions(&t.file_a, &t.file_b);
            println!("history {i}: len {} / {} bytes-equal={same} diff={:?}", t.file_a.len(), t.file_b.len(), d);
            for k in ["results", "live", "reopened"] {
                if t.a[k] != t.b[k] {
                    println!("  {k} differs");
                    if let (Some(oa), Some(ob)) = (t.a[k].as_object(), t.b[k].as_object()) {
                        for (kk, va) in oa { if Some(va) != ob.get(kk) { println!("    {kk}:\n      A {}\n      B {}", va, ob.get(kk).unwrap_or(&Value::Null)); } }
                    } else { println!("    A {}\n    B {}", t.a[k], t.b[k]); }
                }
            }
            if argv.len() > 3 { println!("  A results: {}", t.a["results"]); }
        }
        return;
    }
    let args = parse_args();
    let sum = Summary::new("C23", &args, "todo");
    sum.finish(&args);
}
