//! C26 — derived data refers to the frame it was derived from.
//! impl: real `Memvid` (puts with triplet extraction, instant index and enrichment requests, commits in
//! between so that WAL sequence numbers and frame ids diverge); model: drv_c26 (Lean Core model with the
//! derived-data id taken from `next_frame_id()` at put time); oracle (independent of the model): every
//! memory card, enrichment record and enrichment-queue entry a put creates names the id the reference
//! model (`RefModel`: ids in acknowledgement order) gives that document, keeps naming it, and once the
//! frame is committed its text contains the card's value / it is the frame waiting for enrichment.
use mvh::hist::*;
use mvh::Rng;
use std::collections::BTreeMap;

/// what the oracle remembers about one memory card
#[derive(Clone, Debug, PartialEq)]
struct CardNote {
    doc: u64,
    entity: String,
    slot: String,
    value: String,
    step: usize,
}

#[derive(Default)]
struct Ledger {
    /// card id → note
    cards: BTreeMap<u64, CardNote>,
    /// queue entries the acknowledged puts are expected to have pushed (ids of their documents)
    queued_docs: Vec<u64>,
    /// documents with an enrichment record
    recorded_docs: Vec<u64>,
    last_index: usize,
}

fn contains_value(text: &str, value: &str) -> bool {
    if text.contains(value) { return true; }
    // templates of the rule engine join two captures with " at " (`$2 at $3`)
    if let Some((a, b)) = value.split_once(" at ") { return text.contains(a.trim()) && text.contains(b.trim()); }
    false
}

fn oracle_c26(l: &mut Ledger, v: &mut StepView) -> Option<(String, String)> {
    if v.index == 0 || v.index < l.last_index { *l = Ledger::default(); }
    l.last_index = v.index;
    let is_put = matches!(v.op, Op::Put(_) | Op::Update(_));
    let acked_put = is_put && v.ack.is_ok();
    // the id the reference model gives the document of this put
    let doc = v.reference_before.next_id();
    let cards: Vec<(u64, u64, String, String, String)> = v.world.mem().memories().cards().iter()
        .map(|c| (c.id, c.source_frame_id, c.entity.clone(), c.slot.clone(), c.value.clone())).collect();

    // ---- memory cards
    let mut seen: BTreeMap<u64, ()> = BTreeMap::new();
    for (id, src, entity, slot, value) in &cards {
        seen.insert(*id, ());
        match l.cards.get(id) {
            Some(n) if n.entity == *entity && n.slot == *slot && n.value == *value => {
                if n.doc != *src {
                    return Some(("card-source-changed".into(), format!("card {id} ({entity}/{slot}={value}) of the put at step {} named frame {} and now names frame {src}", n.step, n.doc)));
                }
            }
            _ => {
                if !acked_put {
                    // a card this oracle has not seen being created by a put (cards are only made by puts;
                    // after a crash lost cards their ids may be handed out again — only by a later put)
                    return Some(("card-appeared-without-put".into(), format!("card {id} ({entity}/{slot}={value}, source {src}) exists after `{}`", v.op.name())));
                }
                if *src != doc {
                    return Some(("card-names-wal-sequence-not-frame-id".into(), format!(
                        "the put at step {} is insert number {doc} (its document gets frame id {doc}); memory card {id} ({entity}/{slot}={value}) extracted from it carries source_frame_id {src}", v.index)));
                }
                l.cards.insert(*id, CardNote { doc, entity: entity.clone(), slot: slot.clone(), value: value.clone(), step: v.index });
                v.world.branches.push("card-created".into());
            }
        }
    }
    l.cards.retain(|id, _| seen.contains_key(id));

    // ---- enrichment records
    let recs = &v.after.enr_recs;
    for r in recs {
        if !v.before.enr_recs.contains(r) || !l.recorded_docs.contains(r) {
            if acked_put && *r == doc { if !l.recorded_docs.contains(r) { l.recorded_docs.push(*r); } continue; }
            if l.recorded_docs.contains(r) { continue; }
            if acked_put {
                return Some(("enrichment-record-names-wal-sequence-not-frame-id".into(), format!(
                    "the put at step {} is insert number {doc}; the enrichment record it created is filed under frame {r}", v.index)));
            }
            return Some(("enrichment-record-appeared-without-put".into(), format!("enrichment record of frame {r} exists after `{}`", v.op.name())));
        }
    }
    l.recorded_docs.retain(|d| recs.contains(d));
    // a put that produced cards files its record under its own document
    if acked_put && cards.iter().any(|c| l.cards.get(&c.0).map(|n| n.step == v.index).unwrap_or(false)) && !recs.contains(&doc) {
        return Some(("enrichment-record-missing".into(), format!("the put at step {} (document {doc}) produced cards but no enrichment record names frame {doc}", v.index)));
    }

    // ---- enrichment queue
    let qb = &v.before.queue;
    let qa = &v.after.queue;
    if acked_put {
        let wants = match v.op { Op::Put(p) => p.instant_index && p.enable_embedding, _ => false };
        if qa.len() > qb.len() {
            let new = &qa[qb.len()..];
            if qa[..qb.len()] != qb[..] || new.len() != 1 {
                return Some(("enrichment-queue-rewritten-by-put".into(), format!("queue {qb:?} became {qa:?}")));
            }
            if new[0] != doc {
                return Some(("queue-entry-names-wal-sequence-not-frame-id".into(), format!(
                    "the put at step {} is insert number {doc}; the enrichment-queue entry it created names frame {}", v.index, new[0])));
            }
            l.queued_docs.push(doc);
            v.world.branches.push("queue-entry-created".into());
        } else if wants {
            return Some(("enrichment-not-queued".into(), format!("put with instant_index and enable_embedding at step {} left the queue {qa:?}", v.index)));
        }
    } else if qa.iter().any(|e| !l.queued_docs.contains(e)) {
        return Some(("queue-entry-appeared-without-put".into(), format!("queue {qa:?} after `{}`; documents queued by puts: {:?}", v.op.name(), l.queued_docs)));
    }
    if let Some(t) = v.world.mem().next_enrichment_task() {
        if Some(&t.frame_id) != qa.first() { return Some(("next-task-not-queue-head".into(), format!("next_enrichment_task names {}, queue {qa:?}", t.frame_id))); }
    }

    // ---- once committed: the frame the derived data names is the document it was derived from
    let quiescent = v.after.pending_inserts == 0 && !v.after.dirty;
    if quiescent {
        for (id, n) in &l.cards {
            let Some(f) = v.after.frames.get(n.doc as usize) else {
                return Some(("card-source-frame-missing".into(), format!("card {id} names frame {} but only {} frames are committed", n.doc, v.after.frames.len())));
            };
            let Some(r) = v.reference.frames.get(n.doc as usize) else { continue };
            if r.born_at != n.step + 1 || f.uri.as_deref() != Some(r.uri_string().as_str()) || f.role == 'c' {
                return Some(("card-source-is-another-document".into(), format!("card {id} of the put at step {} names frame {} which is uri {:?} role {} born at step {}", n.step, n.doc, f.uri, f.role, r.born_at)));
            }
            let text = f.search_text.clone().unwrap_or_default();
            if !contains_value(&text, &n.value) {
                return Some(("card-value-not-in-frame-text".into(), format!("card {id} value {:?} is not in the text of frame {} ({} chars)", n.value, n.doc, text.chars().count())));
            }
            v.world.branches.push("card-checked-against-committed-frame".into());
        }
        for d in qa.clone() {
            let Some(f) = v.after.frames.get(d as usize) else {
                return Some(("queue-entry-frame-missing".into(), format!("queue entry {d}: only {} frames are committed", v.after.frames.len())));
            };
            if f.active() {
                match v.world.mem().read_frame_for_enrichment(d) {
                    Some((_, _, true)) => { v.world.branches.push("queue-entry-checked-against-committed-frame".into()); }
                    other => return Some(("queue-entry-names-frame-not-awaiting-enrichment".into(), format!("queue entry {d}: read_frame_for_enrichment = {:?}", other.map(|x| (x.1, x.2))))),
                }
            }
        }
    }
    if acked_put && v.after.seq != v.reference.next_id() { v.world.branches.push("seq-differs-from-frame-id".into()); }
    // the repaired put_internal reads the id off next_frame_id(): it must predict the id of the next document
    if !matches!(v.op, Op::Crash) && v.after.next_frame_id != v.reference.next_id() {
        return Some(("next-frame-id-is-not-the-next-document-id".into(), format!(
            "next_frame_id() = {} after `{}`, the next document will be insert number {}", v.after.next_frame_id, v.op.name(), v.reference.next_id())));
    }
    None
}

/// an ASCII payload of `len` characters from which the rule-based extractor makes at least one card
fn card_payload(len: usize, from_seed: u64) -> PayloadSpec {
    let ex = memvid_core::TripletExtractor::default();
    for seed in from_seed..from_seed + 5000 {
        let p = PayloadSpec::new(PayloadKind::Ascii, len, seed);
        let text = String::from_utf8(p.bytes()).unwrap_or_default();
        if !ex.extract(0, &text, None, None, 0).0.is_empty() { return p; }
    }
    panic!("no payload seed produces a memory card: the rule set or the word list changed");
}

fn tput(payload: PayloadSpec, ts: i64, instant: bool, embed: bool) -> Op {
    let mut p = PutSpec::simple(payload, ts);
    p.extract_triplets = true;
    p.instant_index = instant;
    p.enable_embedding = embed;
    Op::Put(p)
}

fn corpus() -> Vec<(String, Vec<Op>)> {
    let c = |k: u64| card_payload(120, 1000 * k);
    vec![
        // the coordinator's witness: three puts each followed by a commit — sequences 1,3,5 vs ids 0,1,2
        ("witness-cards-after-commits".into(), vec![tput(c(1), 100, false, false), Op::Commit, tput(c(2), 101, false, false), Op::Commit,
            tput(c(3), 102, false, false), Op::Commit]),
        ("witness-queue-after-commit".into(), vec![tput(c(4), 100, true, true), Op::Commit, tput(c(5), 101, true, true), Op::Commit, Op::Reopen]),
        ("first-put-only".into(), vec![tput(c(6), 100, true, true), Op::Commit, Op::Reopen]),
        ("chunked-then-cards".into(), vec![tput(card_payload(5000, 7000), 100, true, true), tput(c(8), 101, true, false), Op::Commit,
            tput(c(9), 102, false, true), Op::Reopen, Op::Crash]),
        ("update-with-cards".into(), vec![tput(c(10), 100, false, false), Op::Commit,
            Op::Update(UpdSpec { id: 0, payload: Some(c(11)), extract_triplets: true, instant_index: true, ..Default::default() }),
            Op::Commit, Op::Delete { id: 1 }, tput(c(12), 103, true, true), Op::Commit, Op::Vacuum, Op::Reopen]),
        // ~2.3 KB records until the WAL crosses its checkpoint threshold inside a put: the cards of that put are
        // extracted AFTER the automatic commit applied its record
        ("auto-commit-inside-card-put".into(), (0..26).map(|i| tput(card_payload(2300, 20_000 + 1000 * i as u64), 200 + i, i % 3 == 0, i % 2 == 0))
            .chain([Op::Commit, Op::Reopen]).collect()),
    ]
}

/// offline generator of derived-data heavy histories (the shared online generator never asks for embeddings
/// to be generated, so it never fills the enrichment queue)
fn gen_history(rng: &mut Rng, len: usize) -> Vec<Op> {
    let mut ops = vec![];
    let mut ts = rng.i64(1_600_000_000, 1_700_000_000);
    let mut est_frames: u64 = 0;
    let mut in_batch = false;
    for _ in 0..len {
        let r = rng.below(100);
        let payload = |rng: &mut Rng| -> PayloadSpec {
            match rng.below(100) {
                0..=54 => PayloadSpec::new(PayloadKind::Ascii, rng.usize(30, 700), rng.u64()),
                55..=69 => card_payload(rng.usize(60, 300), rng.below(1_000_000)),
                70..=79 => PayloadSpec::new(PayloadKind::Ascii, rng.usize(2390, 6000), rng.u64()),
                80..=87 => PayloadSpec::new(PayloadKind::Utf8, rng.usize(20, 500), rng.u64()),
                88..=93 => PayloadSpec::new(PayloadKind::Bin, rng.usize(1, 16), rng.u64()),
                94..=96 => PayloadSpec::new(PayloadKind::Empty, 0, rng.u64()),
                _ => PayloadSpec::new(PayloadKind::Rand, rng.usize(17, 3000), rng.u64()),
            }
        };
        let op = match r {
            0..=49 => {
                ts += rng.i64(-5, 300);
                let mut p = PutSpec::simple(payload(rng), ts);
                p.extract_triplets = rng.chance(85, 100);
                p.instant_index = rng.chance(60, 100);
                p.enable_embedding = rng.chance(55, 100);
                if rng.chance(40, 100) { p.uri = Some(format!("mv2://c26/doc-{}.txt", rng.below(1000))); }
                est_frames += 1;
                Op::Put(p)
            }
            50..=59 => {
                let mut u = UpdSpec { id: rng.below(est_frames + 2), ..Default::default() };
                if rng.chance(65, 100) { u.payload = Some(payload(rng)); }
                u.extract_triplets = rng.chance(85, 100);
                u.instant_index = rng.chance(50, 100);
                est_frames += 1;
                Op::Update(u)
            }
            60..=65 => Op::Delete { id: rng.below(est_frames + 2) },
            66..=81 => Op::Commit,
            82..=86 => Op::Reopen,
            87..=90 => Op::Crash,
            91..=92 => Op::Vacuum,
            93..=94 => if in_batch { in_batch = false; Op::EndBatch } else { in_batch = true; Op::BeginBatch { disable_auto_checkpoint: rng.bool(), skip_sync: rng.bool(), compression_level: 3, presize: 0 } },
            95 => { let (rt, rl) = (rng.bool(), rng.bool()); Op::Doctor { vacuum: rng.bool(), rebuild_time: rt || !rl, rebuild_lex: rl, rebuild_vec: false } }
            96..=97 => Op::CommitSkip,
            _ => Op::ReadOnly,
        };
        ops.push(op);
    }
    ops.push(Op::Commit);
    ops.push(Op::Reopen);
    ops
}

/// `c26 shrinkdead <replay file>`: delta-debug a history whose failure is that the file can no longer be
/// opened (such failures belong to the Core / crash properties; this only produces a small witness for them)
fn shrink_dead(args: &mvh::Args) -> ! {
    let case = mvh::load_replay(args.replay_file.as_ref().expect("replay file"));
    let input = case.get("input").unwrap_or(&case);
    let ops = ops_from_json(&input["ops"]);
    let mut noop = |_: &mut StepView| -> Option<(String, String)> { None };
    let mut fails = |cand: &[Op]| run_history(Source::Fixed(cand), None, &mut noop, false).dead.is_some();
    let small = mvh::shrink_list(&ops, &mut fails);
    println!("{}", serde_json::to_string(&small).unwrap());
    let mut noop2 = |_: &mut StepView| -> Option<(String, String)> { None };
    let out = run_history(Source::Fixed(&small), None, &mut noop2, true);
    println!("DEAD {:?}", out.dead);
    std::process::exit(0);
}

fn main() {
    let args = mvh::parse_args();
    if args.mode == "shrinkdead" { shrink_dead(&args); }
    if args.mode == "seeds" { for k in 1..=12u64 { println!("{k} {:?}", card_payload(120, 1000 * k)); } std::process::exit(0); }
    let mut prof = GenProfile::standard(args.thorough);
    prof.triplets = true;
    prof.instant_index_percent = 50;
    // process death is exercised by C26's own histories below; the shared random part leaves it out (see the
    // open crash-recovery finding /verif/replays/C26-found-crash-open-sketch-magic.json, which is not about derived data)
    prof.w_commit = 16; prof.w_reopen = 6; prof.w_crash = 0; prof.w_doctor = 0;
    prof.n_short = if args.thorough { 30 } else { 6 };
    prof.short_len = (12, 40);
    prof.n_long = if args.thorough { 2 } else { 0 };
    prof.corpus = corpus();
    let mut ledger = Ledger::default();
    // the fixed witnesses first, implementation + oracle only: when they already refute the property the
    // random exploration adds nothing (and every failing history would be shrunk for up to a minute)
    let mut refuted = false;
    if args.mode != "replay" {
        for (_, ops) in &prof.corpus {
            let mut o = |v: &mut StepView| oracle_c26(&mut ledger, v);
            if run_history(Source::Fixed(ops), None, &mut o, false).oracle.is_some() { refuted = true; }
        }
    }
    let mut rng = Rng::new(args.seed ^ 0xc26c_26c2);
    let n_own = if refuted { 0 } else if args.thorough { 100 } else { 14 };
    if refuted { prof.n_short = 2; prof.n_long = 0; }
    for k in 0..n_own {
        let len = rng.usize(6, 30);
        prof.corpus.push((format!("derived-{k}"), gen_history(&mut rng, len)));
    }
    let cfg = FamilyConfig {
        property: "C26",
        rule: "histories of puts / updates with extract_triplets, instant_index and enable_embedding (texts built from a word list that \
               triggers the rule-based extractor), commits, reopen, crash, vacuum, doctor, batches in between so that WAL sequence \
               numbers and frame ids diverge; after every op: each new memory card / enrichment record / enrichment-queue entry \
               names the id the reference model gives the put's document, existing ones keep their id, and once committed the named \
               frame is that document, its text contains the card's value, and a queued frame is the one awaiting enrichment; \
               non-trivial = at least two acknowledged mutations and a commit point; distinct = op/answer trace",
        expect_branches: vec!["card-created", "queue-entry-created", "seq-differs-from-frame-id", "card-checked-against-committed-frame",
                              "queue-entry-checked-against-committed-frame", "auto-commit", "chunked-put", "update-payload", "op-crash", "op-reopen"],
    };
    let mut oracle = move |v: &mut StepView| {
        let r = oracle_c26(&mut ledger, v);
        r
    };
    run_family(cfg, prof, &mut oracle);
}
